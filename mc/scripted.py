"""Scripted environment for the standard sampler: a proposal whose answers are
owned by the explorer, and a model whose likelihood is the first coordinate."""
import numpy as np

from nessai.model import Model
from nessai.proposal.base import Proposal
from nessai.livepoint import parameters_to_live_point


class ScriptExhausted(Exception):
    pass


class ScriptModel(Model):
    """log L = x0 (so the proposal can script any likelihood value); x1 carries a unique id."""

    def __init__(self):
        self.names = ["x0", "x1"]
        self.bounds = {"x0": [-1e6, 1e6], "x1": [-1.0, 1e9]}

    def log_prior(self, x):
        return np.log(self.in_bounds(x), dtype="float64")

    def log_likelihood(self, x):
        return np.array(x["x0"], dtype="float64", copy=True)


class ScriptedProposal(Proposal):
    """`draw` pops the next scripted answer (logP, logL, populated_after)."""

    def __init__(self, model, **kwargs):
        super().__init__(model)
        self.script = []
        self.next_id = 0
        self.draws = 0
        self.populating = False

    def draw(self, old):
        if not self.script:
            raise ScriptExhausted()
        logp, logl, pop = self.script.pop(0)
        self.draws += 1
        p = parameters_to_live_point([logl, float(self.next_id)], self.model.names)
        self.next_id += 1
        p["logP"] = logp
        p["logL"] = logl
        self.populated = bool(pop)
        return p[0]

    def __getstate__(self):
        state = self.__dict__.copy()
        del state["model"]
        return state
