"""Child process for C12's real-kill histories: runs (or resumes) a real nessai run in `out`
and calls os._exit(137) when the user's likelihood is called for the k-th time in this
process (k = 0: never).  Exits 0 when the run completes.  argv: kind out seed k extra_json"""
import json
import os
import sys

HERE = os.path.dirname(os.path.dirname(os.path.abspath(__file__)))
sys.path.insert(0, HERE)
from mc import core  # noqa: E402

core.setup_env()
core.quiet()


def main():
    kind, out, seed, k, extra = sys.argv[1], sys.argv[2], int(sys.argv[3]), int(sys.argv[4]), json.loads(sys.argv[5])
    from nessai.flowsampler import FlowSampler
    from mc import runs
    from mc.tinymodels import make

    kw = (runs.std_base if kind == "std" else runs.ins_base)(seed, **extra)
    model = make(kw.pop("model", "G2") if "model" in kw else "G2")
    calls = [0]
    orig = model.log_likelihood

    fs = FlowSampler(model, output=out, resume=True, **kw)
    model.vectorised_likelihood

    def ll(x):
        calls[0] += 1
        if k and calls[0] == k:
            os._exit(137)
        return orig(x)

    model.log_likelihood = ll
    # the invariant monitors of C01 / C03 run inside this process too (a resumed process may restore
    # state in an order that depends on its own hash seed)
    from mc.monitors import StdMonitor

    mon = StdMonitor() if kind == "std" else runs.InsMonitor()
    if kind == "ins" and fs.ns.iteration > 0:
        mon.rederived = not kw.get("save_log_q", False)
    with mon.installed():
        fs.run(plot=False, save=True)
    print("MONITOR", json.dumps([[str(c), str(d)[:300]] for c, d in mon.errs[:3]]), flush=True)
    print("CALLS", calls[0], flush=True)
    os._exit(0)


if __name__ == "__main__":
    main()
