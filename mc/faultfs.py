"""E3: fault-enumerating file system.

`Recorder` logs the ordered file operations performed by nessai while one
checkpoint (`safe_file_dump`) or one weights save (`FlowModel.save_weights`)
runs: exists / move / open-for-write / write(n bytes) / close / torch.save.
`crash_images` turns that log into every legal on-disk image of a process kill:
completed renames and closed files persist, a file still open for writing may
hold any byte prefix of what was written to it (user-space buffering), and
`torch.save` - which writes through its own C++ zip writer - is modelled as
open + one write of the final bytes + close (every prefix is an image).
"""
import builtins
import contextlib
import os
import shutil


class Recorder:
    def __init__(self, root):
        self.root = os.path.abspath(root)
        self.ops = []  # tuples
        self.active = False
        self.read_paths = []  # paths opened for reading while active (resume side)
        self._handles = 0
        self._in_move = False

    def _rel(self, p):
        p = os.path.abspath(str(p))
        if p.startswith(self.root):
            return os.path.relpath(p, self.root)
        return None

    @contextlib.contextmanager
    def recording(self):
        import torch

        rec = self
        o_exists, o_move, o_open, o_tsave = os.path.exists, shutil.move, builtins.open, torch.save
        o_remove, o_unlink, o_rename, o_replace = os.remove, os.unlink, os.rename, os.replace

        def remove(p, *a, **k):
            if rec.active and rec._rel(p) is not None:
                rec.ops.append(("remove", rec._rel(p)))
            return o_remove(p, *a, **k)

        def unlink(p, *a, **k):
            if rec.active and rec._rel(p) is not None:
                rec.ops.append(("remove", rec._rel(p)))
            return o_unlink(p, *a, **k)

        def rename(a_, b_, *a, **k):
            if rec.active and rec._rel(a_) is not None and rec._rel(b_) is not None and not rec._in_move:
                rec.ops.append(("move", rec._rel(a_), rec._rel(b_)))
            return o_rename(a_, b_, *a, **k)

        def replace(a_, b_, *a, **k):
            if rec.active and rec._rel(a_) is not None and rec._rel(b_) is not None and not rec._in_move:
                rec.ops.append(("move", rec._rel(a_), rec._rel(b_)))
            return o_replace(a_, b_, *a, **k)

        def exists(p):
            r = o_exists(p)
            if rec.active:
                rp = rec._rel(p)
                if rp is not None:
                    rec.ops.append(("exists", rp, r))
            return r

        def move(a, b, *args, **kw):
            if rec.active:
                ra, rb = rec._rel(a), rec._rel(b)
                if ra is not None and rb is not None:
                    rec.ops.append(("move", ra, rb))
            # shutil.move calls os.rename internally: do not log it twice
            rec._in_move = True
            try:
                return o_move(a, b, *args, **kw)
            finally:
                rec._in_move = False

        class Handle:
            def __init__(self, f, hid):
                self._f = f
                self._hid = hid

            def write(self, data):
                rec.ops.append(("write", self._hid, bytes(data)))
                return self._f.write(data)

            def flush(self):
                rec.ops.append(("flush", self._hid))
                return self._f.flush()

            def close(self):
                if not self._f.closed:
                    rec.ops.append(("close", self._hid))
                return self._f.close()

            def __enter__(self):
                return self

            def __exit__(self, *a):
                self.close()
                return False

            def __getattr__(self, name):
                return getattr(self._f, name)

        def open_(file, mode="r", *args, **kw):
            f = o_open(file, mode, *args, **kw)
            if rec.active and isinstance(file, (str, os.PathLike)):
                rp = rec._rel(file)
                if rp is not None and any(c in mode for c in "wax+"):
                    rec._handles += 1
                    rec.ops.append(("open", rec._handles, rp, mode))
                    return Handle(f, rec._handles)
            return f

        def tsave(obj, f, *args, **kw):
            if rec.active and isinstance(f, (str, os.PathLike)) and rec._rel(f) is not None:
                rec.active = False
                try:
                    r = o_tsave(obj, f, *args, **kw)
                finally:
                    rec.active = True
                with o_open(f, "rb") as fh:
                    data = fh.read()
                rec._handles += 1
                rp = rec._rel(f)
                rec.ops.append(("open", rec._handles, rp, "wb"))
                rec.ops.append(("write", rec._handles, data))
                rec.ops.append(("close", rec._handles))
                return r
            return o_tsave(obj, f, *args, **kw)

        os.path.exists, shutil.move, builtins.open, torch.save = exists, move, open_, tsave
        os.remove, os.unlink, os.rename, os.replace = remove, unlink, rename, replace
        try:
            yield self
        finally:
            os.path.exists, shutil.move, builtins.open, torch.save = o_exists, o_move, o_open, o_tsave
            os.remove, os.unlink, os.rename, os.replace = o_remove, o_unlink, o_rename, o_replace


def snapshot(root):
    """{relative path: bytes} of every regular file under root."""
    out = {}
    for d, _, files in os.walk(root):
        for f in files:
            p = os.path.join(d, f)
            with open(p, "rb") as fh:
                out[os.path.relpath(p, root)] = fh.read()
    return out


def materialise(image, dest):
    if os.path.exists(dest):
        shutil.rmtree(dest)
    os.makedirs(dest)
    for rel, data in image.items():
        p = os.path.join(dest, rel)
        os.makedirs(os.path.dirname(p), exist_ok=True)
        with open(p, "wb") as fh:
            fh.write(data)


def crash_images(pre, ops, prefix_step=None):
    """Yield (label, image) for every crash point of the op log.

    pre: snapshot dict before the first op.  A crash point lies before each op and
    after the last; while a handle is open, each byte prefix (every `prefix_step`
    bytes, plus 0, 1, n-1 and n) of the data written so far is a separate image.
    """
    fs = dict(pre)  # path -> bytes (durable + pending view)
    handles = {}  # hid -> dict(path=, written=bytearray)

    def images(label):
        open_h = [h for h in handles.values() if not h["closed"]]
        if not open_h:
            yield label, dict(fs)
            return
        # one open handle at a time in both protocols; handle the general case by
        # enumerating prefixes of the most recent one and keeping the others complete
        h = open_h[-1]
        n = len(h["written"])
        if prefix_step:
            cuts = sorted(set(list(range(0, n + 1, prefix_step)) + [0, 1, n - 1, n, n // 2]))
        else:
            cuts = range(0, n + 1)
        for k in cuts:
            if k < 0 or k > n:
                continue
            img = dict(fs)
            # the file may have been renamed since it was opened: follow the inode
            img[h["path"]] = bytes(h["written"][:k])
            yield f"{label}+prefix{k}/{n}", img

    i = 0
    for i, op in enumerate(ops):
        yield from images(f"before-op{i}:{op[0]}")
        kind = op[0]
        if kind == "exists" or kind == "flush":
            pass
        elif kind == "move":
            _, a, b = op
            if a in fs:
                fs[b] = fs.pop(a)
                for h in handles.values():
                    if h["path"] == a:
                        h["path"] = b
        elif kind == "remove":
            fs.pop(op[1], None)
        elif kind == "open":
            _, hid, path, mode = op
            handles[hid] = dict(path=path, written=bytearray(fs.get(path, b"") if "a" in mode else b""), closed=False)
            fs[path] = bytes(handles[hid]["written"])
        elif kind == "write":
            _, hid, data = op
            h = handles[hid]
            h["written"] += data
            fs[h["path"]] = bytes(h["written"])
        elif kind == "close":
            handles[op[1]]["closed"] = True
    yield from images("after-last-op")


def describe(ops):
    out = []
    for op in ops:
        if op[0] == "write":
            out.append(("write", op[1], len(op[2])))
        else:
            out.append(tuple(op))
    return out
