"""Runner core: context, parallel map, evidence writer, known-finding matcher.

Every check module in /verif/checks exposes

    LEVEL   = "model_checking" | "exploration" | "fault_enumeration"
    def run(ctx): ...            # enumerate, call ctx.violation(...) / ctx.count(...)
    def replay(ctx, data): ...   # re-execute one recorded case; return list of violation texts

The deciding step of every check is exhaustive enumeration of a finite, stated
space; VERIF_SEED only seeds the base runs on which histories are explored.
"""
import hashlib
import json
import multiprocessing as mp
import os
import shutil
import subprocess
import sys
import tempfile
import time
import traceback
from concurrent.futures import ProcessPoolExecutor, as_completed

VERIF = os.path.dirname(os.path.dirname(os.path.abspath(__file__)))
REPO = os.environ.get("NESSAI_REPO", "/repo")
NPROC = int(os.environ.get("VERIF_NPROC", "16"))


def setup_env():
    """Environment every process of a check runs under."""
    os.environ.setdefault("OMP_NUM_THREADS", "1")
    os.environ.setdefault("MKL_NUM_THREADS", "1")
    os.environ.setdefault("OPENBLAS_NUM_THREADS", "1")
    os.environ.setdefault("MPLBACKEND", "Agg")
    os.environ["NESSAI_VERIF"] = "1"
    os.environ.setdefault("TQDM_DISABLE", "1")
    if REPO not in sys.path:
        sys.path.insert(0, REPO)


def quiet():
    """Silence nessai logging and warnings inside a worker."""
    import logging
    import warnings

    warnings.filterwarnings("ignore")
    logging.getLogger("nessai").setLevel(logging.CRITICAL)
    logging.getLogger("nessai").propagate = False
    logging.disable(logging.CRITICAL)
    try:
        import torch

        torch.set_num_threads(1)
    except Exception:
        pass


def _worker_init():
    # a worker must not outlive its check: if the parent is killed (an outer `timeout`, a kill
    # from the operator) while a worker is busy in library code, the kernel takes the worker too
    try:
        import ctypes
        import signal as _signal

        ctypes.CDLL("libc.so.6", use_errno=True).prctl(1, int(_signal.SIGKILL))  # PR_SET_PDEATHSIG
        if os.getppid() == 1:
            os._exit(0)
    except Exception:
        pass
    setup_env()
    quiet()


def stable_key(obj):
    return hashlib.sha1(
        json.dumps(obj, sort_keys=True, default=str).encode()
    ).hexdigest()[:16]


class HarnessError(Exception):
    """The harness itself misbehaved (never reported as a VIOLATION)."""


class Ctx:
    def __init__(self, pid, tier, seed, level):
        self.pid = pid
        self.tier = tier
        self.seed = seed
        self.level = level
        self.t0 = time.time()
        self.cov = {}
        self.assumptions = []
        self.violations = []  # (key, what, data)
        self.known = []
        self._known_entries = load_known(pid)
        self.samples = []
        self._seen_viol = set()
        self.scratch = tempfile.mkdtemp(prefix=f"nessai-verif-{pid}-")

    @property
    def quick(self):
        return self.tier == "quick"

    # -- coverage bookkeeping -------------------------------------------------
    def count(self, name, n=1):
        self.cov[name] = self.cov.get(name, 0) + n

    def set(self, name, value):
        self.cov[name] = value

    def sample(self, s, limit=6):
        if len(self.samples) < limit:
            self.samples.append(s)

    def assume(self, *texts):
        for t in texts:
            if t not in self.assumptions:
                self.assumptions.append(t)

    # -- violations -----------------------------------------------------------
    def violation(self, key, what, data=None):
        """Record a violation with a stable identity `key`."""
        if key in self._seen_viol:
            return
        self._seen_viol.add(key)
        for e in self._known_entries:
            if e.get("status") == "known" and e["key"] == key:
                self.known.append((key, e.get("what", what)))
                return
        self.violations.append((key, what, data))

    def merge(self, res):
        """Merge a worker result dict: {counts:{}, violations:[(key,what,data)], samples:[]}"""
        if res is None:
            return
        for k, v in res.get("counts", {}).items():
            self.count(k, v)
        for v in res.get("violations", []):
            self.violation(*v)
        for s in res.get("samples", []):
            self.sample(s)

    # -- parallel map -----------------------------------------------------------
    def pmap(self, fn, items, nproc=None, chunk=1, timeout=None, ordered=False):
        """Run fn(item) for every item on forked, non-daemonic workers.

        Yields (item, result).  A worker exception is a harness error.
        """
        items = list(items)
        nproc = min(nproc or NPROC, max(1, len(items)))
        if nproc <= 1 or os.environ.get("VERIF_SERIAL"):
            for it in items:
                yield it, fn(it)
            return
        ex = self._executor()
        futs = {ex.submit(fn, it): it for it in items}
        for f in as_completed(futs):
            it = futs[f]
            try:
                r = f.result(timeout=timeout)
            except Exception as e:
                raise HarnessError(
                    f"worker failed on item {str(it)[:300]}: {e!r}\n{traceback.format_exc()}"
                )
            yield it, r

    def _executor(self):
        if getattr(self, "_ex", None) is None:
            self._ex = ProcessPoolExecutor(
                max_workers=NPROC,
                mp_context=mp.get_context("fork"),
                initializer=_worker_init,
            )
        return self._ex

    def close(self):
        if getattr(self, "_ex", None) is not None:
            self._ex.shutdown(wait=True, cancel_futures=True)
            self._ex = None

    # -- finish -------------------------------------------------------------------
    def finish(self):
        self.close()
        wall = time.time() - self.t0
        cov = dict(self.cov)
        cov.setdefault("samples", self.samples or ["(none recorded)"])
        cov["known_findings_matched"] = [k for k, _ in self.known]
        ev = {
            "property_id": self.pid,
            "tier": self.tier,
            "seed": self.seed,
            "level": self.level,
            "coverage": cov,
            "assumptions": self.assumptions,
            "wall_s": round(wall, 3),
            "violations": len(self.violations),
        }
        evdir = os.environ.get("VERIF_EVIDENCE_DIR") or os.path.join(VERIF, "evidence")
        os.makedirs(evdir, exist_ok=True)
        path = os.path.join(evdir, f"{self.pid}.json")
        with open(path + ".tmp", "w") as f:
            json.dump(ev, f, indent=1, default=_jsonable)
        os.replace(path + ".tmp", path)
        validate_evidence(path)
        for key, what in self.known:
            print(f"KNOWN-FINDING: property={self.pid} {what} [key={key}]")
        rc = 0
        for key, what, data in self.violations:
            rp = write_replay(self.pid, key, what, data)
            print(f"VIOLATION property={self.pid} replay={rp}")
            print(f"  key={key}\n  what={str(what)[:600]}")
            rc = 1
        summary = {k: v for k, v in cov.items() if isinstance(v, (int, float, bool))}
        print(f"[{self.pid}] tier={self.tier} seed={self.seed} wall={wall:.1f}s {summary}")
        shutil.rmtree(self.scratch, ignore_errors=True)
        return rc


def _jsonable(o):
    try:
        import numpy as np

        if isinstance(o, np.generic):
            return o.item()
        if isinstance(o, np.ndarray):
            return o.tolist()
    except Exception:
        pass
    if isinstance(o, (set, frozenset, tuple)):
        return list(o)
    return repr(o)


def load_known(pid):
    p = os.path.join(VERIF, "known_findings.json")
    if not os.path.exists(p):
        return []
    with open(p) as f:
        d = json.load(f)
    return [e for e in d.get("findings", []) if e.get("property") == pid]


def write_replay(pid, key, what, data):
    d = os.path.join(os.environ.get("VERIF_REPLAY_DIR") or os.path.join(VERIF, "replays"), pid)
    os.makedirs(d, exist_ok=True)
    name = "".join(c if c.isalnum() or c in "-_." else "_" for c in key)[:80]
    name = f"{name}-{stable_key(key)[:8]}.json"
    path = os.path.join(d, name)
    with open(path, "w") as f:
        json.dump(
            {"property": pid, "key": key, "what": what, "data": data},
            f,
            indent=1,
            default=_jsonable,
        )
    return path


def validate_evidence(path):
    """Validate against the schema with python3-vt's jsonschema when present."""
    schema = "/root/.vp/EVIDENCE.schema.json"
    if not os.path.exists(schema):
        schema = os.path.join(VERIF, "mc", "EVIDENCE.schema.json")
    vt = shutil.which("python3-vt")
    if not (vt and os.path.exists(schema)):
        return
    code = (
        "import json,sys,jsonschema;"
        "jsonschema.validate(json.load(open(sys.argv[1])),json.load(open(sys.argv[2])))"
    )
    r = subprocess.run([vt, "-c", code, path, schema], capture_output=True, text=True)
    if r.returncode != 0:
        raise HarnessError(f"evidence file {path} does not validate:\n{r.stderr[-2000:]}")
