"""Child process for C14/C20: runs the configurations given as JSON on stdin (one list)
in a fresh interpreter and prints one line `DIGEST <json>` per configuration."""
import hashlib
import json
import os
import sys

HERE = os.path.dirname(os.path.dirname(os.path.abspath(__file__)))
sys.path.insert(0, HERE)

from mc import core  # noqa: E402

core.setup_env()
core.quiet()


def digest_of(res):
    fs = res.get("fs")
    if fs is None:
        return {"error": res["errs"][:1] or res.get("rejected_up_front")}
    import numpy as np

    ns = fs.ns
    samples = np.asarray(fs.nested_samples)
    lw = np.asarray(ns.log_posterior_weights if hasattr(ns, "log_posterior_weights") else ns.state.log_posterior_weights)
    return {
        "samples": hashlib.sha1(samples.tobytes()).hexdigest(),
        "logZ": float(fs.logZ).hex(),
        "weights": hashlib.sha1(np.ascontiguousarray(lw).tobytes()).hexdigest(),
        "evaluations": int(res["model"].likelihood_evaluations),
        "n": int(len(samples)),
        "errs": res["errs"][:2],
    }


def run_one(cfg):
    import shutil
    from mc import runs

    pool = None
    cfg = dict(cfg)
    kw = dict(cfg.get("kwargs", {}))
    if cfg.get("user_pool"):
        import multiprocessing
        from nessai.utils.multiprocessing import initialise_pool_variables
        from mc.tinymodels import make

        # the pool must be created with the model it will evaluate: build it around a
        # template model of the same class (the likelihood has no per-instance state)
        template = make(cfg.get("model", "G2"))
        pool = multiprocessing.get_context("fork").Pool(cfg["user_pool"], initializer=initialise_pool_variables, initargs=(template,))
        kw["pool"] = pool
    cfg["kwargs"] = kw
    runner = runs.run_standard_case if cfg["kind"] == "std" else runs.run_ins_case
    from nessai import config as nessai_config

    saved = {k: getattr(nessai_config.livepoints, k) for k in cfg.get("nessai_config", {})}
    for k, v in cfg.get("nessai_config", {}).items():
        # documented global settings of the live-point arrays (e.g. single-precision parameters)
        setattr(nessai_config.livepoints, k, v)
    try:
        res = runner(cfg, want=(), keep_output=True)
        d = digest_of(res)
        if res.get("output"):
            shutil.rmtree(res["output"], ignore_errors=True)
        if res.get("fs") is not None:
            try:
                res["fs"].ns.close_pool(code=2)
            except Exception:
                pass
    finally:
        for k, v in saved.items():
            setattr(nessai_config.livepoints, k, v)
        if pool is not None:
            pool.terminate()
            pool.join()
    return d


def main():
    cfgs = json.load(sys.stdin)
    for cfg in cfgs:
        try:
            d = run_one(cfg)
        except BaseException as e:  # noqa
            d = {"error": f"{type(e).__name__}: {e}"}
        d["id"] = cfg.get("id")
        d["hashseed"] = os.environ.get("PYTHONHASHSEED")
        print("DIGEST " + json.dumps(d), flush=True)


if __name__ == "__main__":
    main()
