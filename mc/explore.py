"""E1: level-synchronous explicit-state BFS over *real* transition functions.

A state is the event history that reaches it.  `expand(hist)` (run in a worker)
rebuilds the real object by replaying `hist`, then for every enabled event
replays hist+[ev] on a fresh object, evaluates the invariant (agreement with
the lock-step reference model) and returns the canonical key of the successor.
The master de-duplicates on canonical keys, keeping the first (shortest,
alphabet-order-smallest) history for each.

E2: deviation-bounded choice-tree DFS (CHESS style) for environment answers.
"""
from .core import HarnessError


def bfs(ctx, roots, expand, max_depth, chunk=64, extra=None):
    """roots: list of (canon_key, hist).  expand((i, extra, hists)) -> list per hist of
    (event, canon_key or None, violation or None, outcome_tag).

    Returns dict(states, transitions, max_depth, outcomes(set), exhausted(bool)).
    `exhausted` is True when the frontier emptied before max_depth (fixpoint).
    """
    seen = {}
    frontier = []
    for key, hist in roots:
        if key not in seen:
            seen[key] = hist
            frontier.append(hist)
    transitions = 0
    outcomes = set()
    depth = 0
    shortest = list(frontier[:1])
    longest = None
    while frontier and depth < max_depth:
        depth += 1
        batches = [frontier[i : i + chunk] for i in range(0, len(frontier), chunk)]
        nxt = []
        results = {}
        for b, res in ctx.pmap(expand, [(i, extra, x) for i, x in enumerate(batches)]):
            results[b[0]] = res
        for bi in sorted(results):
            for hist, succs in zip(batches[bi], results[bi]):
                for ev, key, viol, tag in succs:
                    transitions += 1
                    if tag is not None:
                        outcomes.add(tag)
                    if viol is not None:
                        ctx.violation(*viol)
                    if key is None:
                        continue
                    if key not in seen:
                        h2 = list(hist) + [ev]
                        seen[key] = h2
                        nxt.append(h2)
                        longest = h2
        frontier = nxt
    return dict(
        states=len(seen),
        transitions=transitions,
        max_depth=depth,
        outcomes=outcomes,
        exhausted=not frontier,
        shortest=shortest,
        longest=longest,
    )


class ChoiceTree:
    """E2: run `body(ask)` for every choice sequence with <= bound deviations.

    `ask(n)` returns an index in range(n); index 0 is the default answer and
    costs nothing, any other answer costs one deviation.  Executions always run
    to completion.  A replayed prefix that asks for a different arity than
    recorded is a hard harness error (nondeterminism not owned).
    """

    def __init__(self, bound):
        self.bound = bound
        self.executions = 0

    def explore(self, body):
        stack = [[]]
        while stack:
            prefix = stack.pop()
            arities = []
            choices = []

            def ask(n, _p=prefix):
                i = len(choices)
                c = _p[i] if i < len(_p) else 0
                if c >= n:
                    raise HarnessError(
                        f"replay divergence: choice {c} out of range {n} at point {i}"
                    )
                arities.append(n)
                choices.append(c)
                return c

            result = body(ask)
            self.executions += 1
            yield list(choices), result
            used = sum(1 for c in choices if c)
            if used < self.bound:
                for i in range(len(prefix), len(choices)):
                    for alt in range(1, arities[i]):
                        stack.append(choices[:i] + [alt])
