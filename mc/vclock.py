"""E6b: virtual clock seam.

nessai reads the wall clock only through `datetime.datetime.now()` (module attribute
`datetime` of the modules listed below).  `VClock.installed()` replaces that attribute by
a stand-in whose `datetime.now()` returns EPOCH + t seconds, where t only moves when the
harness says so (`tick`): one second per point handed to the user's likelihood, and a
large jump for the down time between two legs of a killed-and-resumed run.  Every timer
nessai keeps is then an exact integer number of seconds that the harness can predict
from its own ledger of likelihood calls, and any interval that is counted twice, reset
or that includes the down time shows up as an exact mismatch.
"""
import contextlib
import datetime as _dt
import importlib

EPOCH = _dt.datetime(2020, 1, 1)
DOWNTIME = 10**6

MODULES = [
    "nessai.model",
    "nessai.samplers.base",
    "nessai.samplers.nestedsampler",
    "nessai.samplers.importancesampler",
    "nessai.proposal.base",
    "nessai.proposal.flowproposal",
    "nessai.proposal.analytic",
]


class VClock:
    def __init__(self):
        self.t = 0
        self.reads = 0

    def tick(self, n=1):
        self.t += int(n)

    def now(self):
        self.reads += 1
        return EPOCH + _dt.timedelta(seconds=self.t)

    def standin(self):
        clock = self

        class datetime(_dt.datetime):
            @classmethod
            def now(cls, tz=None):
                return clock.now()

        class Module:
            pass

        m = Module()
        m.datetime = datetime
        m.timedelta = _dt.timedelta
        m.date = _dt.date
        return m

    @contextlib.contextmanager
    def installed(self):
        saved = []
        m = self.standin()
        for name in MODULES:
            mod = importlib.import_module(name)
            if hasattr(mod, "datetime") and getattr(mod, "datetime") is _dt:
                saved.append(mod)
                mod.datetime = m
        try:
            yield self
        finally:
            for mod in saved:
                mod.datetime = _dt


def seconds(td):
    return td.total_seconds() if isinstance(td, _dt.timedelta) else float(td)
