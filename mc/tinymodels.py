"""Tiny nessai Models used by the checks (DESIGN.md appendix B).

Likelihoods use only + and * on float64, evaluated column by column in a fixed
order, so scalar, vectorised and chunked evaluation agree bit for bit.
"""
import numpy as np

from nessai.model import Model


class Gauss(Model):
    """Isotropic Gaussian log-likelihood, uniform prior on [-5, 5]^d."""

    def __init__(self, dims=2, lo=-5.0, hi=5.0, vectorised=True):
        self.names = [f"x{i}" for i in range(dims)]
        self.bounds = {n: [lo, hi] for n in self.names}
        self._lo, self._hi = lo, hi
        self.allow_vectorised = vectorised
        self._log_prior_const = -dims * np.log(hi - lo)

    def log_prior(self, x):
        lp = np.log(self.in_bounds(x), dtype="float64")
        return lp + self._log_prior_const

    def log_likelihood(self, x):
        out = np.zeros(x.size)
        for n in self.names:
            out = out + x[n] * x[n] * (-0.5)
        return out

    def to_unit_hypercube(self, x):
        x_out = x.copy()
        for n in self.names:
            x_out[n] = (x[n] - self._lo) / (self._hi - self._lo)
        return x_out

    def from_unit_hypercube(self, x):
        x_out = x.copy()
        for n in self.names:
            x_out[n] = (self._hi - self._lo) * x[n] + self._lo
        return x_out


class GaussRamp(Gauss):
    """Gaussian likelihood; prior: linear ramp on x0 (density 2u on the unit
    interval), uniform on the others; exact inverse-CDF `new_point`."""

    def log_prior(self, x):
        with np.errstate(divide="ignore", invalid="ignore"):
            u = (x[self.names[0]] - self._lo) / (self._hi - self._lo)
            lp = np.log(2.0 * u) + self._log_prior_const
            lp = np.where(self.in_bounds(x) & (u > 0), lp, -np.inf)
        return lp

    def new_point(self, N=1):
        from nessai.livepoint import numpy_array_to_live_points

        u = np.random.rand(N, self.dims)
        u[:, 0] = np.sqrt(u[:, 0])
        u[:, 0] = np.maximum(u[:, 0], 1e-12)
        return numpy_array_to_live_points(self._lo + (self._hi - self._lo) * u, self.names)

    def new_point_log_prob(self, x):
        return self.log_prior(x)

    def to_unit_hypercube(self, x):
        x_out = x.copy()
        for i, n in enumerate(self.names):
            u = (x[n] - self._lo) / (self._hi - self._lo)
            x_out[n] = u * u if i == 0 else u
        return x_out

    def from_unit_hypercube(self, x):
        x_out = x.copy()
        for i, n in enumerate(self.names):
            u = np.sqrt(x[n]) if i == 0 else x[n]
            x_out[n] = (self._hi - self._lo) * u + self._lo
        return x_out


class GaussHole(Gauss):
    """Gaussian likelihood that is exactly zero (log L = -inf) on part of the prior
    (x0 > 2.5): legal for both samplers, exercises -inf weights."""

    def log_likelihood(self, x):
        out = np.zeros(x.size)
        for n in self.names:
            out = out + x[n] * x[n] * (-0.5)
        return np.where(x[self.names[0]] > 2.5, -np.inf, out)


class GaussCut(Gauss):
    """Uniform prior on the box with a cut: zero prior (log-prior -inf) where x0 < x1, i.e. the
    prior support is a strict subset of its bounding box."""

    def log_prior(self, x):
        lp = np.log(self.in_bounds(x), dtype="float64") + self._log_prior_const + np.log(2.0)
        return np.where(x[self.names[0]] >= x[self.names[1]], lp, -np.inf)

    def to_unit_hypercube(self, x):
        return super().to_unit_hypercube(x)


class GaussStep(Gauss):
    """Quantised Gaussian likelihood (steps of 0.25 in log L): many exactly tied likelihoods,
    legal for the importance sampler (ties and plateaus in the sample store)."""

    def log_likelihood(self, x):
        out = np.zeros(x.size)
        for n in self.names:
            out = out + x[n] * x[n] * (-0.5)
        return np.floor(out * 4.0) * 0.25


class GaussBA(Model):
    """Two parameters whose names are NOT in sorted order ("b" before "a"), with different
    bounds, and a likelihood that is not symmetric under swapping them: any place that sorts
    names, or pairs values with the wrong parameter, shows up as a log-likelihood / log-prior
    mismatch or a point outside the bounds."""

    def __init__(self, vectorised=True):
        self.names = ["b", "a"]
        self.bounds = {"b": [0.0, 10.0], "a": [-5.0, 5.0]}
        self.allow_vectorised = vectorised

    def log_prior(self, x):
        return np.log(self.in_bounds(x), dtype="float64") - np.log(100.0)

    def log_likelihood(self, x):
        return (x["b"] - 3.0) * (x["b"] - 3.0) * (-0.5) + (x["a"] + 1.0) * (x["a"] + 1.0) * (-2.0)

    def to_unit_hypercube(self, x):
        x_out = x.copy()
        x_out["b"] = x["b"] / 10.0
        x_out["a"] = (x["a"] + 5.0) / 10.0
        return x_out

    def from_unit_hypercube(self, x):
        x_out = x.copy()
        x_out["b"] = 10.0 * x["b"]
        x_out["a"] = 10.0 * x["a"] - 5.0
        return x_out


class Gauss3A(Model):
    """Three parameters, names not in sorted order, all bounds and likelihood widths different
    (nothing is symmetric under a permutation of the parameters)."""

    def __init__(self, vectorised=True):
        self.names = ["c", "a", "b"]
        self.bounds = {"c": [0.0, 10.0], "a": [-5.0, 5.0], "b": [-1.0, 3.0]}
        self.allow_vectorised = vectorised

    def log_prior(self, x):
        return np.log(self.in_bounds(x), dtype="float64") - np.log(400.0)

    def log_likelihood(self, x):
        return (x["c"] - 3.0) * (x["c"] - 3.0) * (-0.5) + (x["a"] + 1.0) * (x["a"] + 1.0) * (-2.0) + (x["b"] - 0.5) * (x["b"] - 0.5) * (-8.0)

    def to_unit_hypercube(self, x):
        x_out = x.copy()
        x_out["c"] = x["c"] / 10.0
        x_out["a"] = (x["a"] + 5.0) / 10.0
        x_out["b"] = (x["b"] + 1.0) / 4.0
        return x_out

    def from_unit_hypercube(self, x):
        x_out = x.copy()
        x_out["c"] = 10.0 * x["c"]
        x_out["a"] = 10.0 * x["a"] - 5.0
        x_out["b"] = 4.0 * x["b"] - 1.0
        return x_out


class GaussTilt(GaussRamp):
    """Ramp prior on x0 but a LINEAR map to the unit hypercube: the prior in the hypercube is
    not flat (density 2u on the first axis) and the model says so by overriding
    `log_prior_unit_hypercube`.  Makes the unit-hypercube log-prior a non-zero term of every
    importance weight."""

    def to_unit_hypercube(self, x):
        return Gauss.to_unit_hypercube(self, x)

    def from_unit_hypercube(self, x):
        return Gauss.from_unit_hypercube(self, x)

    def log_prior_unit_hypercube(self, x):
        v = self.unstructured_view(x)
        inside = ~np.any((v < 0) | (v >= 1), axis=-1)
        with np.errstate(divide="ignore", invalid="ignore"):
            lp = np.log(2.0 * v[..., 0])
        return np.where(inside, lp, -np.inf)


class GaussHalf(Gauss):
    """Uniform prior on the upper half of the first axis only (zero prior where x0 is below the
    middle of its range), mapped LINEARLY to the unit hypercube: the prior in the hypercube is
    zero on half of the cube and the model says so in `log_prior_unit_hypercube`.  About half of
    the samples of an importance-sampler run then carry a zero weight (log W = -inf) although
    their likelihood is finite and as large as that of their neighbours."""

    def log_prior(self, x):
        lo, hi = self.bounds[self.names[0]]
        lp = np.log(self.in_bounds(x), dtype="float64") + self._log_prior_const + np.log(2.0)
        return np.where(x[self.names[0]] >= 0.5 * (lo + hi), lp, -np.inf)

    def new_point(self, N=1):
        from nessai.livepoint import numpy_array_to_live_points

        u = np.random.rand(N, self.dims)
        u[:, 0] = 0.5 + 0.5 * u[:, 0]
        return numpy_array_to_live_points(self._lo + (self._hi - self._lo) * u, self.names)

    def new_point_log_prob(self, x):
        return self.log_prior(x)

    def log_prior_unit_hypercube(self, x):
        v = self.unstructured_view(x)
        inside = ~np.any((v < 0) | (v >= 1), axis=-1)
        return np.where(inside & (v[..., 0] >= 0.5), np.log(2.0), -np.inf)


class GaussCorner(Gauss):
    """Unit box, likelihood increasing towards the upper corner, and a user-defined initial design
    for the importance sampler (`sample_unit_hypercube`) that is stratified and includes the end
    points 0 and 1 of every axis.  A point with a coordinate exactly 1.0 is inside the (closed)
    bounds but outside the half-open unit hypercube of `log_prior_unit_hypercube`: finite prior,
    finite (and largest) likelihood, zero importance weight (log W = -inf)."""

    def __init__(self, dims=2, **kw):
        super().__init__(dims, lo=0.0, hi=1.0, **kw)

    def log_likelihood(self, x):
        out = np.zeros(x.size)
        for n in self.names:
            out = out + (x[n] - 1.0) * (x[n] - 1.0) * (-0.5 / 0.09)
        return out

    def sample_unit_hypercube(self, n=1):
        from nessai.livepoint import numpy_array_to_live_points

        n = int(n)
        if n < 2:
            u = np.random.rand(n, self.dims)
        else:
            u = np.stack([np.random.permutation(np.linspace(0.0, 1.0, n)) for _ in range(self.dims)], axis=1)
        return numpy_array_to_live_points(u, self.names)


class GaussZeros(Gauss):
    """`new_point` allocates its array with zeros (as user-written / bilby-style models do) instead
    of nessai's NaN placeholders: logP and logL of a fresh point are 0.0 until nessai fills them."""

    def new_point(self, N=1):
        from nessai.livepoint import get_dtype

        x = np.zeros(N, dtype=get_dtype(self.names))
        for n in self.names:
            x[n] = np.random.uniform(self._lo, self._hi, N)
        return x

    def new_point_log_prob(self, x):
        return self.log_prior(x)


class GaussEdge(Gauss):
    """Bounds of large magnitude ([99, 100]^d) with the likelihood peaked exactly on the upper
    corner: a trained flow proposes points a hair beyond the bounds (tolerances relative to the
    magnitude of a bound would let them in)."""

    def __init__(self, dims=2, **kw):
        super().__init__(dims, lo=99.0, hi=100.0, **kw)

    def log_likelihood(self, x):
        out = np.zeros(x.size)
        for n in self.names:
            out = out + (x[n] - 100.0) * (x[n] - 100.0) * (-8.0)
        return out


class GaussOpen(Gauss):
    """Uniform prior whose `log_prior` does NOT vanish outside the bounds (the Model API does
    not require it to: the bounds are enforced by nessai), likelihood peaked beyond the upper
    corner so that a trained flow proposes points across the edge."""

    def __init__(self, dims=2, **kw):
        super().__init__(dims, lo=-1.0, hi=1.0, **kw)

    def log_prior(self, x):
        return np.zeros(x.size) + self._log_prior_const

    def log_likelihood(self, x):
        out = np.zeros(x.size)
        for n in self.names:
            out = out + (x[n] - 1.25) * (x[n] - 1.25) * (-2.0)
        return out


class GaussOpenMixed(GaussOpen):
    """As GaussOpen but the likelihood rewards leaving the box through the LOWER face of the first
    axis and the UPPER face of the second (peaks at -1.25 and +1.25): whichever side a proposal
    leaks through, the leaked points are the best ones."""

    def log_likelihood(self, x):
        out = np.zeros(x.size)
        for i, n in enumerate(self.names):
            c = -1.25 if i == 0 else 1.25
            out = out + (x[n] - c) * (x[n] - c) * (-2.0)
        return out


class GW5(Model):
    """GW-named parameters with conventional bounds; priors: uniform in mass parameters,
    ra, psi; cosine in dec; Gaussian likelihood in rescaled coordinates.  Exists only to
    drive GWFlowProposal's default reparameterisations."""

    def __init__(self):
        self.names = ["chirp_mass", "mass_ratio", "ra", "dec", "psi"]
        self.bounds = {
            "chirp_mass": [20.0, 40.0],
            "mass_ratio": [0.125, 1.0],
            "ra": [0.0, 2 * np.pi],
            "dec": [-np.pi / 2, np.pi / 2],
            "psi": [0.0, np.pi],
        }
        self._mid = {n: 0.5 * (b[0] + b[1]) for n, b in self.bounds.items()}
        self._w = {n: (b[1] - b[0]) for n, b in self.bounds.items()}

    def log_prior(self, x):
        with np.errstate(divide="ignore", invalid="ignore"):
            lp = np.log(self.in_bounds(x), dtype="float64")
            lp = lp + np.log(np.cos(x["dec"]))
        return np.where(self.in_bounds(x), lp, -np.inf)

    def log_likelihood(self, x):
        out = np.zeros(x.size)
        for n in self.names:
            u = (x[n] - self._mid[n]) * (4.0 / self._w[n])
            out = out + u * u * (-0.5)
        return out


class Guarded:
    """Mixin-free wrapper: records every likelihood call of a model and checks
    that every row is inside the prior support (C09 likelihood-call guard)."""

    def __init__(self, model):
        self.model = model
        self.calls = 0
        self.rows = 0
        self.bad = []
        self.kill_at = None
        orig = model.log_likelihood
        model._verif_orig_log_likelihood = orig

        def wrapped(x, _orig=orig):
            xa = np.atleast_1d(x)
            self.calls += 1
            self.rows += xa.size
            if self.kill_at is not None and self.rows >= self.kill_at:
                raise KillSignal(self.rows)
            try:
                box = np.ones(xa.size, dtype=bool)
                for n_ in model.names:
                    box &= (xa[n_] >= model.bounds[n_][0]) & (xa[n_] <= model.bounds[n_][1])
                ok = box & np.isfinite(model.log_prior(xa))
            except Exception as e:  # pragma: no cover
                ok = np.array([False])
                self.bad.append(f"guard raised {e!r}")
            if not np.all(ok):
                self.bad.append(
                    f"likelihood called outside the prior support: {xa[~ok][:1]!r}"
                )
            return _orig(x)

        model.log_likelihood = wrapped


class KillSignal(BaseException):
    """Simulated process death (a BaseException nothing in nessai catches)."""


def make(name="G2", **kw):
    if name == "G2":
        return Gauss(2, **kw)
    if name == "G3":
        return Gauss(3, **kw)
    if name == "G4":
        return Gauss(4, **kw)
    if name == "G2step":
        return GaussStep(2, **kw)
    if name == "G2cut":
        return GaussCut(2, **kw)
    if name == "G2hole":
        return GaussHole(2, **kw)
    if name == "G3a":
        return Gauss3A(**kw)
    if name == "G2ba":
        return GaussBA(**kw)
    if name == "G2tilt":
        return GaussTilt(2, **kw)
    if name == "G2half":
        return GaussHalf(2, **kw)
    if name == "G2corner":
        return GaussCorner(2, **kw)
    if name == "G2zeros":
        return GaussZeros(2, **kw)
    if name == "G2edge":
        return GaussEdge(2, **kw)
    if name == "G2openmix":
        return GaussOpenMixed(2, **kw)
    if name == "G2open":
        return GaussOpen(2, **kw)
    if name == "GW5":
        return GW5()
    if name == "G2ramp":
        return GaussRamp(2, **kw)
    raise ValueError(name)
