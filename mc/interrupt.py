"""E4: interruption injector.

`Window` traces `line` events (sys.settrace) of frames whose code lives under the
nessai source tree, between two markers of the sampling loop.  In counting mode
it records the event sequence; in firing mode it calls the installed signal
handler (what the interpreter would do when the signal arrives just before that
line executes) at the chosen event index.
"""
import linecache
import os
import signal
import sys


class Window:
    def __init__(self, root, fire_at=None, signum=signal.SIGTERM, opcodes_in=()):
        self.root = os.path.join(os.path.abspath(root), "nessai") + os.sep
        self.fire_at = fire_at
        self.signum = signum
        self.events = []  # (qualname, lineno, filename) per event when counting
        self.n = 0
        self.active = False
        self.fired = None
        self.opcodes_in = set(opcodes_in)
        self._stack_site = None

    # -- tracing ---------------------------------------------------------------
    def _global(self, frame, event, arg):
        if not self.active:
            return None
        if frame.f_code.co_filename.startswith(self.root):
            if frame.f_code.co_name in self.opcodes_in:
                frame.f_trace_opcodes = True
            return self._local
        return None

    def _local(self, frame, event, arg):
        if not self.active:
            return None
        if event == "line" or (event == "opcode" and frame.f_code.co_name in self.opcodes_in):
            self._on_event(frame, event)
        return self._local

    def _on_event(self, frame, event):
        idx = self.n
        self.n += 1
        if self.fire_at is None:
            self.events.append((frame.f_code.co_qualname, frame.f_lineno, frame.f_code.co_filename, event))
            return
        if idx == self.fire_at:
            self.fired = self.describe(frame)
            self.active = False
            sys.settrace(None)
            handler = signal.getsignal(self.signum)
            if not callable(handler):
                raise RuntimeError(f"no handler installed for signal {self.signum}")
            handler(self.signum, frame)  # expected to raise SystemExit

    def describe(self, frame):
        """Innermost line and the chain of nessai sampler frames above it."""
        chain = []
        f = frame
        while f is not None:
            if f.f_code.co_filename.startswith(self.root):
                src = linecache.getline(f.f_code.co_filename, f.f_lineno).strip()
                chain.append((f.f_code.co_qualname, f.f_lineno, src))
            f = f.f_back
        return chain

    # -- control ----------------------------------------------------------------
    def start(self, extra_frames=()):
        self.active = True
        sys.settrace(self._global)
        for fr in extra_frames:
            if fr is not None and fr.f_code.co_filename.startswith(self.root):
                fr.f_trace = self._local

    def stop(self, extra_frames=()):
        self.active = False
        sys.settrace(None)
        for fr in extra_frames:
            if fr is not None:
                fr.f_trace = None


def dedupe(events, keep=("first", "second", "last")):
    """Indices of the first, second and last occurrence of every (function, line)."""
    occ = {}
    for i, e in enumerate(events):
        occ.setdefault((e[0], e[1], e[3]), []).append(i)
    out = set()
    for idxs in occ.values():
        out.add(idxs[0])
        if len(idxs) > 1 and "second" in keep:
            out.add(idxs[1])
        if "last" in keep:
            out.add(idxs[-1])
    return sorted(out)
