"""E6: lattice RNG seams.

`Seam` temporarily replaces `numpy.random.rand` / `numpy.random.choice` (the
module-level functions nessai calls) with explorer-owned answers, but only for
calls made from the named nessai functions (identified by the caller's code
name and file); everything else passes through to the seeded generator.
"""
import contextlib
import sys

import numpy as np


class Seam:
    def __init__(self):
        self.calls = []  # (function name, caller, args, kwargs)


@contextlib.contextmanager
def patch_rand(answer, callers=None, record=None):
    """answer(shape_tuple, caller_name) -> ndarray or None (pass through)."""
    orig = np.random.rand

    def rand(*shape):
        f = sys._getframe(1)
        name = f.f_code.co_name
        if callers is None or name in callers:
            out = answer(shape, name)
            if out is not None:
                if record is not None:
                    record.append(("rand", name, shape))
                return out
        return orig(*shape)

    np.random.rand = rand
    try:
        yield
    finally:
        np.random.rand = orig


@contextlib.contextmanager
def patch_choice(answer, callers=None, record=None):
    """answer(args, kwargs, caller_name) -> indices or None (pass through)."""
    orig = np.random.choice

    def choice(*args, **kwargs):
        f = sys._getframe(1)
        name = f.f_code.co_name
        if callers is None or name in callers:
            out = answer(args, kwargs, name)
            if record is not None:
                record.append(("choice", name, args, kwargs))
            if out is not None:
                return out
        return orig(*args, **kwargs)

    np.random.choice = choice
    try:
        yield
    finally:
        np.random.choice = orig
