"""Invariant monitors attachable to real nessai runs (shared by several checks).

`StdMonitor` observes a real `NestedSampler` around `populate_live_points`,
every `consume_sample` and `finalise`, and evaluates the C01 oracle; it keeps
its own append-only record of what was discarded (the boring reference model).
"""
import contextlib

import numpy as np


def oracle_ll(model):
    """The user's likelihood without the harness guards (oracle evaluations must not
    count as evaluations of the run)."""
    return getattr(model, "_verif_orig_log_likelihood", model.log_likelihood)


def rows(a):
    """Multiset of rows of a structured array as bytes."""
    out = {}
    for r in np.atleast_1d(a):
        b = r.tobytes()
        out[b] = out.get(b, 0) + 1
    return out


def model_values(model, x, tol=1e-12):
    """(ok_prior, ok_like, detail): stored logP/logL equal the model's at x."""
    x = np.atleast_1d(x)
    lp = np.asarray(model.log_prior(x), dtype=float).reshape(-1)
    ll = np.asarray(oracle_ll(model)(x), dtype=float).reshape(-1)
    okp = np.all((lp == x["logP"]) | (np.abs(lp - x["logP"]) <= tol * (1 + np.abs(lp))))
    okl = np.all((ll == x["logL"]) | (np.abs(ll - x["logL"]) <= tol * (1 + np.abs(ll))))
    return bool(okp), bool(okl), f"logP {x['logP']} vs {lp}; logL {x['logL']} vs {ll}"


def inside_box(m, x):
    """Independent of Model.in_bounds: exact comparison with the declared bounds, field by name."""
    x = np.atleast_1d(x)
    ok = np.ones(len(x), dtype=bool)
    for n in m.names:
        lo, hi = m.bounds[n]
        ok &= (x[n] >= lo) & (x[n] <= hi)
    return ok


class StdMonitor:
    def __init__(self, model=None, check_model_values=True):
        self.errs = []  # (clause, detail)
        self.model = model
        self.check_model_values = check_model_values
        self.iterations = 0
        self.discarded = []  # reference record: bytes of every discarded row, in order
        self.populations = 0
        self.finalised = 0
        self.insert_positions = set()

    def err(self, clause, detail=""):
        self.errs.append((clause, str(detail)[:400]))

    # -- population ------------------------------------------------------------
    def after_populate(self, ns):
        self.populations += 1
        lp = ns.live_points
        if lp is None or len(lp) != ns.nlive:
            self.err("populate:size", f"{None if lp is None else len(lp)} vs nlive {ns.nlive}")
            return
        if np.any(np.diff(lp["logL"]) < 0):
            self.err("populate:not-ascending", lp["logL"])
        if not (np.all(np.isfinite(lp["logP"])) and np.all(np.isfinite(lp["logL"]))):
            self.err("populate:non-finite-logP-or-logL", (lp["logP"], lp["logL"]))
        if np.any(lp["it"] != 0):
            self.err("populate:it-not-zero", lp["it"])
        self._check_support(ns, lp, "populate")

    def _check_support(self, ns, x, where):
        m = self.model or ns.model
        x = np.atleast_1d(x)
        if not np.all(inside_box(m, x)):
            self.err(f"{where}:outside-prior-bounds", x[~inside_box(m, x)][:1])
        if self.check_model_values:
            okp, okl, d = model_values(m, x)
            if not okp:
                self.err(f"{where}:logP-differs-from-model", d)
            if not okl:
                self.err(f"{where}:logL-differs-from-model", d)

    # -- one iteration -------------------------------------------------------------
    def before_consume(self, ns):
        return dict(
            live=ns.live_points.copy(),
            n_nested=len(ns.nested_samples),
            iteration=ns.iteration,
            n_logls=len(ns.state.logLs),
            n_idx=len(ns.insertion_indices),
        )

    def after_consume(self, ns, pre):
        self.iterations += 1
        n0 = len(self.errs)
        live = ns.live_points
        worst = pre["live"][0]
        if live is None or len(live) != ns.nlive:
            self.err("live-set-size", f"{None if live is None else len(live)} vs {ns.nlive}")
            return
        if np.any(np.diff(live["logL"]) < 0):
            self.err("live-set-not-ascending", live["logL"])
        if worst["logL"] != pre["live"]["logL"].min():
            self.err("removed-is-not-the-minimum", (worst["logL"], pre["live"]["logL"]))
        if ns.iteration != pre["iteration"] + 1:
            self.err("iteration-not-incremented-once", (pre["iteration"], ns.iteration))
        if len(ns.nested_samples) != pre["n_nested"] + 1:
            self.err("discarded-recorded-exactly-once", f"{pre['n_nested']} -> {len(ns.nested_samples)}")
        elif ns.nested_samples[-1].tobytes() != worst.tobytes():
            self.err("recorded-point-is-not-the-removed-minimum", (ns.nested_samples[-1], worst))
        if len(ns.nested_samples) != ns.iteration:
            self.err("len(nested_samples)!=iteration", (len(ns.nested_samples), ns.iteration))
        if len(ns.state.logLs) != pre["n_logls"] + 1 or len(ns.state.logLs) - 1 != ns.iteration:
            self.err("evidence-state-entries", (pre["n_logls"], len(ns.state.logLs), ns.iteration))
        elif ns.state.logLs[-1] != worst["logL"]:
            self.err("integrated-logL-is-not-the-removed-minimum", (ns.state.logLs[-1], worst["logL"]))
        d = np.asarray(ns.state.logLs[1:], dtype=float)
        if len(d) > 1 and np.any(np.diff(d[-2:]) < 0):
            self.err("discarded-logL-decreased", d[-2:])
        self.discarded.append(worst.tobytes())
        # replacement: multiset(after) == multiset(before) - {worst} + {new}
        before = rows(pre["live"])
        before[worst.tobytes()] -= 1
        after = rows(live)
        diff_new = {k: v - before.get(k, 0) for k, v in after.items() if v - before.get(k, 0) > 0}
        diff_lost = {k: v - after.get(k, 0) for k, v in before.items() if v - after.get(k, 0) > 0}
        if diff_lost:
            self.err("other-live-point-modified-or-lost", f"{len(diff_lost)} rows missing")
        if sum(diff_new.values()) != 1:
            self.err("exactly-one-new-point", f"{sum(diff_new.values())} new rows")
            return
        newb = next(iter(diff_new))
        new = np.frombuffer(newb, dtype=live.dtype)[0]
        if not np.isfinite(new["logP"]):
            self.err("replacement-logP-not-finite", new)
        if not (new["logL"] > worst["logL"]):
            self.err("replacement-logL-not-strictly-greater", (new["logL"], worst["logL"]))
        if new["it"] != ns.iteration:
            self.err("replacement-it-field", (new["it"], ns.iteration))
        if len(ns.insertion_indices) != pre["n_idx"] + 1:
            self.err("insertion-index-recorded-once", (pre["n_idx"], len(ns.insertion_indices)))
        else:
            idx = ns.insertion_indices[-1]
            self.insert_positions.add(int(idx))
            if not (0 <= idx < ns.nlive) or live[int(idx)].tobytes() != newb:
                self.err("insertion-index-is-not-the-new-points-position", f"index {idx}, logL {live['logL']}, new {new['logL']}")
        if len(ns.insertion_indices) != ns.iteration:
            self.err("len(insertion_indices)!=iteration", (len(ns.insertion_indices), ns.iteration))
        self._check_support(ns, new, "replacement")
        return len(self.errs) == n0

    # -- finalise -------------------------------------------------------------------
    def before_finalise(self, ns):
        return dict(live=None if ns.live_points is None else ns.live_points.copy(), n_nested=len(ns.nested_samples), iteration=ns.iteration)

    def after_finalise(self, ns, pre):
        self.finalised += 1
        if ns.live_points is not None:
            self.err("finalise:live-set-not-cleared")
        nlive = ns.nlive
        if len(ns.nested_samples) != pre["iteration"] + nlive:
            self.err("finalise:number-of-samples", (len(ns.nested_samples), pre["iteration"], nlive))
        arr = np.array(ns.nested_samples)
        if np.any(np.diff(arr["logL"]) < 0):
            self.err("finalise:not-ascending")
        if pre["live"] is not None:
            tail = arr[pre["n_nested"]:]
            if tail.tobytes() != pre["live"].tobytes():
                self.err("finalise:live-points-not-consumed-exactly-once-in-order")
        if len(ns.state.logLs) - 1 != len(ns.nested_samples):
            self.err("finalise:evidence-state-entries", (len(ns.state.logLs), len(ns.nested_samples)))
        k = len(self.discarded)
        if k and k <= pre["n_nested"]:
            seg = [r.tobytes() for r in arr[pre["n_nested"] - k : pre["n_nested"]]]
            if seg != self.discarded:
                self.err("finalise:discarded-history-rewritten")

    # -- installation ---------------------------------------------------------------
    @contextlib.contextmanager
    def installed(self):
        """Patch NestedSampler so that every instance reports to this monitor."""
        from nessai.samplers.nestedsampler import NestedSampler as NS

        mon = self
        o_cons, o_pop, o_fin = NS.consume_sample, NS.populate_live_points, NS.finalise

        def consume_sample(ns):
            pre = mon.before_consume(ns)
            r = o_cons(ns)
            mon.after_consume(ns, pre)
            return r

        def populate_live_points(ns):
            r = o_pop(ns)
            mon.after_populate(ns)
            return r

        def finalise(ns):
            pre = mon.before_finalise(ns)
            r = o_fin(ns)
            mon.after_finalise(ns, pre)
            return r

        NS.consume_sample, NS.populate_live_points, NS.finalise = consume_sample, populate_live_points, finalise
        try:
            yield self
        finally:
            NS.consume_sample, NS.populate_live_points, NS.finalise = o_cons, o_pop, o_fin


class PoolMonitor:
    """C09 structural clauses, attached to every population of a real run."""

    def __init__(self):
        self.errs = []
        self.populations = 0
        self.draws = 0
        self.kinds = set()

    def err(self, c, d=""):
        self.errs.append((c, str(d)[:300]))

    def check_pool(self, prop, kind, requested=None):
        self.populations += 1
        self.kinds.add(kind)
        m = prop.model
        s = prop.samples
        if s is None:
            self.err(f"{kind}:no-pool-after-populate")
            return
        s = np.atleast_1d(s)
        if kind == "flow":
            if requested is not None and len(s) != requested:
                self.err("flow-pool-size-differs-from-requested", f"{len(s)} vs {requested}")
        elif requested is not None and len(s) > requested:
            self.err(f"{kind}-pool-larger-than-requested", f"{len(s)} vs {requested}")
        if len(s) == 0:
            return
        if not np.all(inside_box(m, s)):
            self.err(f"{kind}:pool-point-outside-prior-bounds", s[~inside_box(m, s)][:1])
        if not np.all(np.isfinite(s["logP"])):
            self.err(f"{kind}:pool-point-with-non-finite-logP")
        okp, okl, d = model_values(m, s)
        if not okp:
            self.err(f"{kind}:pool-logP-differs-from-model", d[:200])
        if not okl:
            self.err(f"{kind}:pool-logL-differs-from-model", d[:200])
        idx = list(prop.indices)
        if sorted(idx) != list(range(len(s))):
            self.err(f"{kind}:indices-are-not-a-permutation-of-the-pool", f"{len(idx)} indices for {len(s)} samples")
        deterministic = type(prop).__name__ == "FlowProposal" and all(
            type(r).__name__ in ("RescaleToBounds", "NullReparameterisation", "ScaleAndShift", "Rescale") and not getattr(r, "boundary_inversion", False)
            for r in prop._reparameterisation.values()
        )
        # (folded, augmented, clustered or auxiliary-radius maps are not deterministic forwards:
        #  their contour clause is decided on the latent draws themselves in the population lattice)
        if kind == "flow" and deterministic and prop.latent_prior in ("truncated_gaussian", "uniform_nball", "uniform_nsphere") and np.isfinite(prop.r):
            try:
                z, _ = prop.forward_pass(s.copy(), rescale=True, compute_radius=False)
                rad = np.sqrt(np.sum(z ** 2, axis=1))
                lim = prop.r * prop.fuzz
                # the pool is generated in float32 and mapped forwards again: 1e-3 relative slack
                n_img = len(z) // len(s) if len(s) else 1
                if n_img == 1 and np.any(rad > lim * (1 + 1e-3) + 1e-3):
                    self.err("pool-point-outside-latent-contour", f"radius {rad.max()!r} > r*fuzz {lim!r}")
            except Exception as e:
                self.err(f"forward-pass-of-pool-raises-{type(e).__name__}", e)
        prop._verif_handed = set()

    def check_draw(self, prop, before_indices, new_sample):
        self.draws += 1
        handed = getattr(prop, "_verif_handed", None)
        if handed is None:
            return
        after = list(prop.indices)
        gone = set(before_indices) - set(after)
        if len(before_indices) - len(after) != 1 or len(gone) != 1:
            self.err("draw-does-not-consume-exactly-one-index", f"{len(before_indices)} -> {len(after)}")
            return
        i = gone.pop()
        if i in handed:
            self.err("pool-point-handed-out-twice", i)
        handed.add(i)
        try:
            same = np.asarray(prop.samples[i]).tobytes() == np.asarray(new_sample).tobytes()
        except Exception:
            same = True
        if not same:
            self.err("drawn-point-is-not-the-indexed-pool-point", i)

    @contextlib.contextmanager
    def installed(self):
        from nessai.proposal.flowproposal import FlowProposal
        from nessai.proposal.rejection import RejectionProposal
        from nessai.proposal.analytic import AnalyticProposal

        mon = self
        o_fp, o_rp, o_ap = FlowProposal.populate, RejectionProposal.populate, AnalyticProposal.populate
        o_fd, o_ad = FlowProposal.draw, AnalyticProposal.draw

        def fp(prop, worst_point, N=10000, **k):
            r = o_fp(prop, worst_point, N=N, **k)
            mon.check_pool(prop, "flow", requested=N)
            return r

        def rp(prop, N=None):
            r = o_rp(prop, N=N)
            mon.check_pool(prop, "rejection", requested=N if N is not None else prop.poolsize)
            return r

        def ap(prop, N=None):
            r = o_ap(prop, N=N)
            mon.check_pool(prop, "analytic", requested=N if N is not None else prop.poolsize)
            return r

        def fd(prop, worst_point):
            before = list(prop.indices) if prop.populated else None
            r = o_fd(prop, worst_point)
            if before is None:
                before = list(prop.indices) + [i for i in range(len(prop.samples)) if i not in prop.indices]
            mon.check_draw(prop, before, r)
            return r

        def ad(prop, old_sample, **k):
            before = list(prop.indices) if prop.populated else None
            r = o_ad(prop, old_sample, **k)
            if before is None:
                before = list(prop.indices) + [i for i in range(len(prop.samples)) if i not in prop.indices]
            mon.check_draw(prop, before, r)
            return r

        FlowProposal.populate, RejectionProposal.populate, AnalyticProposal.populate = fp, rp, ap
        FlowProposal.draw, AnalyticProposal.draw = fd, ad
        try:
            yield self
        finally:
            FlowProposal.populate, RejectionProposal.populate, AnalyticProposal.populate = o_fp, o_rp, o_ap
            FlowProposal.draw, AnalyticProposal.draw = o_fd, o_ad
