"""Child process for C11's real-kill validation: runs a real nessai run and calls
os._exit(137) just before file operation number `op_index` of the `which`-th call of the
target (checkpoint dump or weights save).  argv: kind target which op_index out seed extra_json"""
import builtins
import json
import os
import shutil
import sys

HERE = os.path.dirname(os.path.dirname(os.path.abspath(__file__)))
sys.path.insert(0, HERE)
from mc import core  # noqa: E402

core.setup_env()
core.quiet()


def main():
    kind, target, which, op_index, out, seed, extra = sys.argv[1], sys.argv[2], int(sys.argv[3]), int(sys.argv[4]), sys.argv[5], int(sys.argv[6]), json.loads(sys.argv[7])
    import torch
    import nessai.samplers.base as sbase
    from nessai.flowmodel.base import FlowModel
    from nessai.flowsampler import FlowSampler
    from mc import runs
    from mc.tinymodels import make

    kw = (runs.std_base if kind == "std" else runs.ins_base)(seed, **extra)
    state = dict(n=0, active=False, ops=0)
    root = os.path.abspath(out)

    def tick(path=None):
        if not state["active"]:
            return
        if path is not None and not os.path.abspath(str(path)).startswith(root):
            return
        if state["ops"] == op_index:
            os._exit(137)
        state["ops"] += 1

    o_exists, o_move, o_open, o_tsave = os.path.exists, shutil.move, builtins.open, torch.save

    def exists(p):
        tick(p)
        return o_exists(p)

    def move(a, b, *aa, **kk):
        tick(a)
        return o_move(a, b, *aa, **kk)

    class H:
        def __init__(self, f):
            self._f = f

        def write(self, d):
            tick()
            return self._f.write(d)

        def close(self):
            if not self._f.closed:
                tick()
            return self._f.close()

        def __enter__(self):
            return self

        def __exit__(self, *a):
            self.close()
            return False

        def __getattr__(self, n):
            return getattr(self._f, n)

    def open_(file, mode="r", *a, **k):
        if state["active"] and isinstance(file, (str, os.PathLike)) and os.path.abspath(str(file)).startswith(root) and any(c in mode for c in "wax+"):
            tick(file)
            return H(o_open(file, mode, *a, **k))
        return o_open(file, mode, *a, **k)

    def tsave(obj, f, *a, **k):
        if state["active"] and isinstance(f, (str, os.PathLike)):
            tick(f)  # open
            r = o_tsave(obj, f, *a, **k)
            # write and close are not separable for the C++ writer: two more boundaries after completion
            tick()
            tick()
            return r
        return o_tsave(obj, f, *a, **k)

    o_remove, o_unlink = os.remove, os.unlink

    def remove(p, *a, **k):
        tick(p)
        return o_remove(p, *a, **k)

    def unlink(p, *a, **k):
        tick(p)
        return o_unlink(p, *a, **k)

    os.remove, os.unlink = remove, unlink
    os.path.exists, shutil.move, builtins.open, torch.save = exists, move, open_, tsave
    o_dump, o_save = sbase.safe_file_dump, FlowModel.save_weights

    def window(fn, *a, **k):
        state["n"] += 1
        if state["n"] != which:
            return fn(*a, **k)
        state["active"] = True
        try:
            r = fn(*a, **k)
        finally:
            state["active"] = False
        # the call completed without reaching op_index: this is the 'after last op' point
        os._exit(138)

    def dump(*a, **k):
        return window(o_dump, *a, **k) if target == "dump" else o_dump(*a, **k)

    def save(self, *a, **k):
        if target == "weights":
            return window(lambda *aa, **kk: o_save(self, *aa, **kk), *a, **k)
        return o_save(self, *a, **k)

    sbase.safe_file_dump, FlowModel.save_weights = dump, save
    fs = FlowSampler(make("G2"), output=out, resume=False, **kw)
    fs.run(plot=False, save=False)
    os._exit(3)


if __name__ == "__main__":
    main()
