"""Real-run driver: tiny configurations of both samplers, resume histories,
monitors and result oracles (shared by C01-B, C03, C05, C09, C12, C15, C20)."""
import contextlib
import copy
import math
import os
import shutil
import tempfile

import numpy as np

from .monitors import StdMonitor, oracle_ll
from .tinymodels import Guarded, KillSignal, make


def trainable_normal(dims):
    """A user-supplied base distribution given as an INSTANCE with trainable parameters."""
    import torch
    from glasflow.nflows.distributions import Distribution

    class TrainableNormal(Distribution):
        def __init__(self, shape):
            super().__init__()
            self._shape = torch.Size(shape)
            self.loc = torch.nn.Parameter(torch.zeros(1, *shape))
            self.log_scale = torch.nn.Parameter(torch.zeros(1, *shape))

        def _log_prob(self, inputs, context):
            z = (inputs - self.loc) * torch.exp(-self.log_scale)
            return -0.5 * (z**2).sum(dim=1) - self.log_scale.sum() - 0.5 * self._shape[0] * np.log(2 * np.pi)

        def _sample(self, num_samples, context):
            eps = torch.randn(num_samples, *self._shape, device=self.loc.device)
            return self.loc + torch.exp(self.log_scale) * eps

    return TrainableNormal([dims])


def clone_kwargs(kw):
    """Deep copy of sampler keyword arguments; live pools are shared, not copied.  Configurations are
    plain data (they are keys and replay files): the marker "<trainable-normal-instance:d>" stands
    for a fresh object built here."""
    out = {}
    for k, v in kw.items():
        out[k] = v if k in ("pool", "checkpoint_callback") else copy.deepcopy(v)
    fc = out.get("flow_config")
    if isinstance(fc, dict) and isinstance(fc.get("distribution"), str) and fc["distribution"].startswith("<trainable-normal-instance:"):
        fc["distribution"] = trainable_normal(int(fc["distribution"].split(":")[1].rstrip(">")))
    return out


def scratch(prefix="run"):
    return tempfile.mkdtemp(prefix=f"nessai-verif-{prefix}-")


def reset_globals():
    """Per-case reset of nessai's process-global state."""
    import torch
    from nessai import config
    from nessai.livepoint import reset_extra_live_points_parameters

    reset_extra_live_points_parameters()
    torch.set_default_dtype(torch.float32)
    # an interruption injected between the end of a `with torch.no_grad()` body and its
    # __exit__ leaves grad mode off in this long-lived worker (a real process would have exited)
    torch.set_grad_enabled(True)
    config.general.eps = 1e-8
    try:
        from nessai.utils import multiprocessing as nmp

        nmp._model = None
    except Exception:
        pass


def reset_globals_keep_fields(kind):
    """After a nested resume inside a running sampler: nothing to undo (the INS re-adds its
    extra fields idempotently); kept as a seam."""
    return None


# ---------------------------------------------------------------------------------
# configurations

FLOW_TINY = dict(n_blocks=2, n_neurons=4, n_layers=1)
TRAIN_TINY = dict(max_epochs=5, patience=5, batch_size=100)


def std_base(seed=0, **over):
    kw = dict(
        nlive=20,
        stopping=0.5,
        maximum_uninformed=20,
        poolsize=20,
        flow_config=dict(FLOW_TINY),
        training_config=dict(TRAIN_TINY),
        plot=False,
        checkpointing=True,
        checkpoint_on_iteration=True,
        checkpoint_interval=25,
        seed=seed,
        signal_handling=False,
        result_extension="json",
    )
    for k, v in over.items():
        if k in ("flow_config", "training_config") and isinstance(v, dict):
            kw[k] = {**kw[k], **v}
        else:
            kw[k] = v
    return kw


def standard_lattice(seed, quick):
    """default + all single deviations (quick); more values and pairs (thorough)."""
    devs = [
        {},
        {"resume": "every"},
        {"kwargs": {"analytic_priors": True}, "model": "G2ramp"},
        {"model": "G2ramp"},
        {"model": "G3"},
        {"model": "G2hole"},
        {"model": "G2cut"},
        {"model": "G2step"},
        {"model": "G2ba"},
        {"model": "G2ba", "kwargs": {"reparameterisations": {"a": "inversion", "b": "logit"}}},
        {"model": "G2zeros"},
        {"model": "G2zeros", "kwargs": {"analytic_priors": True}},
        # every parameter with a uniform prime prior on a non-default target interval (the prime prior
        # is then the only bound check in the flow proposal)
        {"kwargs": {"reparameterisations": {"rescaletobounds": {"parameters": ["x0", "x1"], "prior": "uniform", "rescale_bounds": [0.0, 1.0]}}}},
        {"model": "G2open", "kwargs": {"reparameterisations": {"rescaletobounds": {"parameters": ["x0", "x1"], "prior": "uniform", "rescale_bounds": [0.0, 1.0]}}}},
        {"model": "G2edge", "kwargs": {"reparameterisations": {"rescaletobounds": {"parameters": ["x0", "x1"], "prior": "uniform", "rescale_bounds": [-2.0, 5.0]}}}},
        # a likelihood that rewards leaving through a lower face on one axis and an upper face on the other
        {"model": "G2openmix"},
        {"model": "G2openmix", "kwargs": {"reparameterisations": {"rescaletobounds": {"parameters": ["x0", "x1"], "prior": "uniform", "rescale_bounds": [0.0, 1.0]}}}},
        {"model": "G2openmix", "kwargs": {"reparameterisations": {"rescaletobounds": {"parameters": ["x0", "x1"], "prior": "uniform", "rescale_bounds": [-3.0, -1.0]}}}},
        {"model": "G2openmix", "kwargs": {"reparameterisations": {"rescaletobounds": {"parameters": ["x0", "x1"], "prior": "uniform", "rescale_bounds": [-0.5, 0.5], "update_bounds": False}}}},
        # deprecated layout: training options inside flow_config (also resumed)
        {"kwargs": {"flow_config": {"max_epochs": 5, "patience": 5, "batch_size": 100}, "training_config": None}, "resume": "every"},
        {"model": "G2edge"},
        {"model": "G2edge", "kwargs": {"reparameterisations": "null"}},
        {"model": "G2open"},
        {"model": "G2open", "kwargs": {"reparameterisations": "null"}},
        {"model": "G2step", "resume": "every", "kwargs": {"nlive": 10, "poolsize": 10}},
        {"kwargs": {"latent_prior": "gaussian", "constant_volume_mode": False}},
        {"kwargs": {"latent_prior": "uniform_nball"}},
        {"kwargs": {"latent_prior": "flow", "constant_volume_mode": False}},
        {"kwargs": {"reparameterisations": "rescaletobounds"}},
        {"kwargs": {"reparameterisations": {"x0": "inversion", "x1": "rescaletobounds"}}},
        {"kwargs": {"reparameterisations": "logit"}},
        {"kwargs": {"reparameterisations": "null"}},
        {"kwargs": {"flow_config": {"ftype": "maf"}}},
        {"kwargs": {"flow_config": {"ftype": "nsf"}}},
        {"kwargs": {"shrinkage_expectation": "t"}},
        {"kwargs": {"shrinkage_expectation": "LogT"}},
        {"kwargs": {"shrinkage_expectation": "T"}},
        {"kwargs": {"flow_proposal_class": "clusteringflowproposal"}},
        {"kwargs": {"constant_volume_mode": False}},
        {"kwargs": {"maximum_uninformed": False}},
        {"kwargs": {"nlive": 10, "poolsize": 10}},
        {"kwargs": {"max_iteration": 30}},
        {"kwargs": {"accumulate_weights": True}},
        {"kwargs": {"poolsize": 7, "drawsize": 3}},
        {"kwargs": {"check_acceptance": True}},
        {"kwargs": {"check_acceptance": True, "accumulate_weights": True}},
        # partial reparameterisation: the rest goes to the fallback; listed in an order different
        # from the model's
        {"model": "G3", "kwargs": {"reparameterisations": {"x1": "rescaletobounds"}}},
        {"model": "G3a", "kwargs": {"reparameterisations": {"a": "rescaletobounds"}}},
        {"model": "G2ba", "kwargs": {"reparameterisations": {"a": "rescaletobounds"}}},
        # proposals / reparameterisations with auxiliary parameters that carry their own prior
        {"kwargs": {"reparameterisations": {"x0": "periodic"}}},
        {"kwargs": {"flow_proposal_class": "augmentedflowproposal"}},
        {"kwargs": {"flow_proposal_class": "gwflowproposal"}, "model": "GW5"},
    ]
    if not quick:
        more = []
        for d in devs[2:]:
            d2 = copy.deepcopy(d)
            d2["resume"] = "every"
            more.append(d2)
        for lp in ("uniform", "uniform_nsphere"):
            more.append({"kwargs": {"latent_prior": lp, "constant_volume_mode": lp == "uniform_nsphere"}})
        for rp in ("zscore", "default", "rescale"):
            more.append({"kwargs": {"reparameterisations": rp}})
        more.append({"kwargs": {"flow_proposal_class": "flowproposal", "truncate_log_q": True}})
        more.append({"kwargs": {"fixed_radius": 2.0}})
        more.append({"kwargs": {"nlive": 25, "poolsize": 50}})
        devs += more
    cfgs = []
    for i, d in enumerate(devs):
        for s in ((seed,) if quick else (seed, seed + 1)):
            cfgs.append({"kind": "std", "model": d.get("model", "G2"), "seed": s, "kwargs": d.get("kwargs", {}), "resume": d.get("resume", "none")})
    return cfgs


def option_sweep(kind, seed):
    """Every valid single option value of the C20 alphabet as a real-run configuration, so that the
    monitors of C01 / C03 / C05 / C09 also watch the options that are in no hand-written lattice.
    Whether such a run completes at all is C20's business: `sweep_errs` drops run failures."""
    from checks import c20

    out = []
    for c in c20.cases(seed, True, pairwise=False):
        if c["kind"] == kind and not c["invalid"]:
            out.append(dict(c, sweep=True))
            if ":population-product:" not in c["label"]:
                # the same option again in a run that is killed at its first checkpoint and resumed
                out.append(dict(c, sweep=True, kill_at=(1,)))
    return out


def sweep_errs(cfg, errs):
    if not cfg.get("sweep"):
        return errs
    return [(c, d) for c, d in errs if not (c.startswith("run-raises") or c.startswith("run-did-not-finish") or c.startswith("harness"))]


def cfg_key(cfg):
    kw = cfg.get("kwargs", {})
    parts = [cfg.get("kind", "std"), cfg.get("model", "G2")]
    for k in sorted(kw):
        parts.append(f"{k}={kw[k]}")
    if cfg.get("resume", "none") != "none":
        parts.append(f"resume={cfg['resume']}")
    if cfg.get("kill_at"):
        parts.append(f"killed_at_checkpoint={sorted(cfg['kill_at'])}")
    return ",".join(str(p) for p in parts).replace(" ", "")


# ---------------------------------------------------------------------------------
# digests


def _b(a):
    return None if a is None else np.ascontiguousarray(a).tobytes()


def std_digest(ns):
    """Result-bearing state of a standard sampler (C12 field list)."""
    d = dict(
        iteration=ns.iteration,
        live_points=_b(ns.live_points),
        nested_samples=[r.tobytes() for r in ns.nested_samples],
        logLs=[float(v) for v in ns.state.logLs],
        log_vols=[float(v) for v in ns.state.log_vols],
        info=[float(v) for v in ns.state.info],
        logZ=float(ns.state.logZ),
        insertion_indices=[int(i) for i in ns.insertion_indices],
        logLmin=float(ns.logLmin),
        logLmax=float(ns.logLmax),
        condition=float(ns.condition),
        accepted=ns.accepted,
        rejected=ns.rejected,
        block_iteration=ns.block_iteration,
        block_acceptance=float(ns.block_acceptance),
        acceptance_history=[float(v) for v in ns.acceptance_history],
        finalised=ns.finalised,
        uninformed_sampling=ns.uninformed_sampling,
        history={k: repr(v) for k, v in (ns.history or {}).items() if k != "sampling_time"},
    )
    return d


# ---------------------------------------------------------------------------------
# kill-at-checkpoint plumbing


class CheckpointKiller:
    """Raises KillSignal right after the k-th completed checkpoint dump (k in `at`),
    or after every dump when at == 'every'."""

    def __init__(self, at):
        self.at = at
        self.count = 0
        self.killed = 0

    @contextlib.contextmanager
    def installed(self):
        import nessai.samplers.base as base

        orig = base.safe_file_dump

        def dump(*a, **k):
            r = orig(*a, **k)
            self.count += 1
            if self.at == "every" or (isinstance(self.at, (set, list, tuple)) and self.count in self.at):
                self.killed += 1
                raise KillSignal(self.count)
            return r

        base.safe_file_dump = dump
        try:
            yield self
        finally:
            base.safe_file_dump = orig


# ---------------------------------------------------------------------------------
# oracles on finished standard runs (C05)


def recompute_standard(logls, nlive, n_iter, expectation, finalised):
    """Independent (mpmath) recomputation of nessai's documented estimator from the
    returned log-likelihoods.  Returns dict(logZ, info, log_w)."""
    import mpmath as mp

    mp.mp.dps = 40
    N = len(logls)
    sched = [nlive] * N
    if finalised:
        for k in range(nlive):
            sched[N - 1 - k] = k + 1
    lv = [mp.mpf(0)]
    for n in sched:
        n = mp.mpf(n)
        lv.append(lv[-1] + (-1 / n if expectation == "logt" else -mp.log(1 + 1 / n)))
    X = [mp.exp(v) for v in lv]
    m = max(logls)
    L = [mp.exp(mp.mpf(float(l)) - m) for l in logls]
    # rectangle-rule evidence and Skilling's information recursion (nessai's convention:
    # the information is taken as 0 until two finite contributions exist)
    Z = mp.mpf(0)
    info = mp.mpf(0)
    for i in range(N):
        w = L[i] * (X[i] - X[i + 1])
        Znew = Z + w
        if Z > 0 and Znew > 0:
            logZo, logZn = mp.log(Z) + m, mp.log(Znew) + m
            info = (w / Znew) * mp.mpf(float(logls[i])) + (Z / Znew) * (info + logZo) - logZn
        Z = Znew
    rect = mp.log(Z) + m
    Xc = X + [mp.mpf(0)]
    Lc = [mp.mpf(0)] + L + [L[-1]]
    trap = sum((Lc[k] + Lc[k + 1]) / 2 * (Xc[k] - Xc[k + 1]) for k in range(N + 1))
    logZ_trap = mp.log(trap) + m
    logw = [float(mp.mpf(float(logls[i])) + mp.log(X[i] - X[i + 1]) - logZ_trap) for i in range(N)]
    return dict(logZ=float(logZ_trap if finalised else rect), logZ_rect=float(rect), info=float(info), log_w=logw)


def _same(a, b, path=""):
    """First difference between two result structures (None if none): reads must be pure."""
    if isinstance(a, dict) and isinstance(b, dict):
        if list(a.keys()) != list(b.keys()):
            return f"{path}: keys {list(a.keys())[:8]} vs {list(b.keys())[:8]}"
        for k in a:
            r = _same(a[k], b[k], f"{path}/{k}")
            if r:
                return r
        return None
    if isinstance(a, (list, tuple)) and isinstance(b, (list, tuple)):
        if len(a) != len(b):
            return f"{path}: length {len(a)} vs {len(b)}"
        for i, (x, y) in enumerate(zip(a, b)):
            r = _same(x, y, f"{path}[{i}]")
            if r:
                return r
        return None
    if isinstance(a, np.ndarray) or isinstance(b, np.ndarray):
        a_, b_ = np.asarray(a), np.asarray(b)
        if a_.dtype != b_.dtype or a_.shape != b_.shape or a_.tobytes() != b_.tobytes():
            return f"{path}: arrays differ"
        return None
    if type(a) is not type(b):
        return f"{path}: {type(a).__name__} vs {type(b).__name__}"
    if isinstance(a, float) and a != a and b != b:
        return None
    return None if a == b else f"{path}: {a!r} vs {b!r}"


def check_repeated_reads(ns, errs):
    """The result dictionary and the weights read twice must be identical (no read has a side effect)."""
    try:
        d1 = ns.get_result_dictionary()
        w1 = np.array(ns.log_posterior_weights, copy=True) if hasattr(ns, "log_posterior_weights") else None
        # other public reads in between (effective sample size, evidence error) must not disturb anything
        for attr in ("posterior_effective_sample_size", "log_evidence_error", "log_evidence", "information"):
            try:
                getattr(ns, attr)
            except Exception:
                pass
        d2 = ns.get_result_dictionary()
        w2 = np.array(ns.log_posterior_weights, copy=True) if hasattr(ns, "log_posterior_weights") else None
    except Exception as e:
        errs.append((f"reading-the-results-twice-raises-{type(e).__name__}", str(e)[:200]))
        return
    for k in ("sampling_time", "history"):
        d1.pop(k, None), d2.pop(k, None)
    r = _same(d1, d2, "result")
    if r:
        errs.append(("result-dictionary-changes-between-two-reads", r))
    if w1 is not None and w1.tobytes() != w2.tobytes():
        errs.append(("posterior-weights-change-between-two-reads", ""))


def check_std_results(fs, model, errs, capped=False, tol=1e-9):
    """C05 oracle for the standard sampler: everything recomputed from the returned arrays."""
    ns = fs.ns
    samples = np.asarray(fs.nested_samples)
    d = ns.get_result_dictionary()

    def err(c, detail=""):
        errs.append((c, str(detail)[:400]))

    check_repeated_reads(ns, errs)
    nlive = ns.nlive
    finalised = bool(ns.finalised)
    if finalised and capped and ns.condition > ns.tolerance:
        err("capped-run-was-finalised")
    want_n = ns.iteration + nlive if finalised else ns.iteration
    if len(samples) != want_n:
        err("number-of-returned-samples", f"{len(samples)} vs iteration {ns.iteration} + nlive {nlive} (finalised={finalised})")
        return
    if np.any(np.diff(samples["logL"]) < 0):
        err("returned-samples-not-ascending")
    okp, okl, det = _model_values(model, samples)
    if not okp:
        err("stored-logP-differs-from-model", det)
    if not okl:
        err("stored-logL-differs-from-model", det)
    # the expectation that was asked for (spelling is case-insensitive by nessai's own validation)
    rec = recompute_standard(samples["logL"], nlive, ns.iteration, str(ns.state.expectation).lower(), finalised)
    for name, val in (("fs.logZ", fs.logZ), ("ns.log_evidence", ns.log_evidence), ("result['log_evidence']", d["log_evidence"])):
        if not (abs(float(val) - rec["logZ"]) <= tol * (1 + abs(rec["logZ"]))):
            err("log-evidence-differs-from-recomputation", f"{name}={val!r} vs {rec['logZ']!r}")
    # a negative information estimate (possible after very few iterations) gives NaN, as documented by sqrt(H/nlive)
    exp_err = math.sqrt(rec["info"] / nlive) if rec["info"] >= 0 else float("nan")
    for name, val in (("fs.logZ_error", fs.logZ_error), ("result['log_evidence_error']", d["log_evidence_error"])):
        if math.isnan(exp_err) and math.isnan(float(val)):
            continue
        if not (abs(float(val) - exp_err) <= 1e-7 * (1 + exp_err)):
            err("log-evidence-error-differs-from-recomputation", f"{name}={val!r} vs sqrt(H/nlive)={exp_err!r} (H={rec['info']!r})")
    if abs(float(d["information"]) - rec["info"]) > 1e-7 * (1 + abs(rec["info"])):
        err("information-differs-from-recomputation", f"{d['information']!r} vs {rec['info']!r}")
    lw = np.asarray(ns.state.log_posterior_weights, dtype=float)
    if finalised:
        if len(lw) != len(samples) or np.max(np.abs(lw - np.array(rec["log_w"]))) > 1e-8:
            err("log-posterior-weights-differ-from-recomputation", f"max diff {np.max(np.abs(lw - np.array(rec['log_w']))) if len(lw) == len(samples) else 'length'}")
    if np.asarray(d["log_posterior_weights"]).tobytes() != lw.tobytes():
        err("result-dict-weights-differ-from-sampler")
    if np.asarray(d["nested_samples"]).tobytes() != samples.tobytes():
        err("result-dict-samples-differ-from-sampler")
    birth = np.asarray(d["logL_birth"], dtype=float)
    if len(birth) != len(samples) or not np.all(birth < samples["logL"]):
        err("birth-logL-not-strictly-below-sample-logL", f"{int(np.sum(~(birth < samples['logL']))) if len(birth) == len(samples) else 'length'} rows")
    post = np.asarray(fs.posterior_samples)
    ns_rows = {r.tobytes() for r in samples}
    if any(r.tobytes() not in ns_rows for r in post):
        err("posterior-samples-not-rows-of-nested-samples")
    if len(d["insertion_indices"]) != ns.iteration:
        err("result-dict-insertion-indices-length", (len(d["insertion_indices"]), ns.iteration))
    if d["total_likelihood_evaluations"] != model.likelihood_evaluations:
        err("result-dict-evaluation-count")


def _model_values(model, x):
    from .monitors import model_values

    return model_values(model, x)


# ---------------------------------------------------------------------------------
# one standard run with monitors and a resume history


def run_standard_case(cfg, want=("c01", "c05"), keep_output=False):
    from nessai.flowsampler import FlowSampler

    reset_globals()
    out = scratch("std")
    kw = std_base(cfg.get("seed", 0), **cfg.get("kwargs", {}))
    mon = StdMonitor()
    from .monitors import PoolMonitor

    pmon = PoolMonitor()
    killer = CheckpointKiller(cfg["resume"] if cfg.get("resume") == "every" else cfg.get("kill_at", ()))
    res = dict(key=cfg_key(cfg), errs=[], iterations=0, resumes=0)
    guards = []
    fs = None
    model = None
    try:
        with mon.installed(), killer.installed(), (pmon.installed() if "c09" in want else contextlib.nullcontext()), std_draw_cap():
            for attempt in range(200):
                model = make(cfg.get("model", "G2"))
                guards.append(Guarded(model))
                try:
                    fs = FlowSampler(model, output=out, resume=True, **clone_kwargs(kw))
                    fs.run(**{"plot": False, "save": True, **cfg.get("run_kwargs", {})})
                    break
                except KillSignal:
                    res["resumes"] += 1
                    if killer.at == "every" and fs is not None and getattr(fs.ns, "finalised", False):
                        # the final checkpoint has been written; one more resume returns the finished run
                        killer.at = ()
                    continue
            else:
                res["errs"].append(("run-did-not-finish-after-200-resumes", ""))
    except DrawCap as e:
        res["draw_cap"] = str(e)
        fs = None
    except Exception as e:
        import traceback

        if mon.populations == 0 and res["resumes"] == 0:
            # configuration rejected before any sampling started: allowed (C20), not a failure
            res["rejected_up_front"] = f"{type(e).__name__}: {e}"
        else:
            res["errs"].append((f"run-raises-{type(e).__name__}", f"{e} | {traceback.format_exc()[-600:]}"))
        fs = None
    res["iterations"] = mon.iterations
    res["insert_positions"] = sorted(mon.insert_positions)
    if "c01" in want:
        res["errs"] += mon.errs
    if "c09" in want:
        res["errs"] += pmon.errs
        res["populations"] = pmon.populations
        res["pool_draws"] = pmon.draws
        res["pool_kinds"] = sorted(pmon.kinds)
    for g in guards:
        if g.bad:
            res["errs"].append(("likelihood-called-outside-prior-support", g.bad[0]))
    if fs is not None and "c05" in want and not res["errs"]:
        check_std_results(fs, model, res["errs"], capped="max_iteration" in cfg.get("kwargs", {}))
    if fs is not None:
        res["logZ"] = float(fs.logZ)
        res["n_samples"] = int(len(fs.nested_samples))
        res["finalised"] = bool(fs.ns.finalised)
    if keep_output:
        res["output"] = out
        res["fs"] = fs
        res["model"] = model
    else:
        shutil.rmtree(out, ignore_errors=True)
    return res


# =================================================================================
# importance nested sampler


def ins_base(seed=0, **over):
    kw = dict(
        importance_nested_sampler=True,
        nlive=50,
        min_samples=10,
        max_iteration=4,
        flow_config=dict(FLOW_TINY),
        training_config=dict(TRAIN_TINY),
        plot=False,
        checkpointing=True,
        checkpoint_on_iteration=True,
        checkpoint_interval=1,
        seed=seed,
        signal_handling=False,
        result_extension="json",
    )
    for k, v in over.items():
        if k in ("flow_config", "training_config") and isinstance(v, dict):
            kw[k] = {**kw[k], **v}
        else:
            kw[k] = v
    return kw


INS_OPTIONS = {
    "reparameterisation": ["logit", None],
    "strict_threshold": [False, True],
    "replace_all": [False, True],
    "draw_constant": [True, False],
    "draw_iid_live": [True, False],
    "ftype": ["realnvp", "maf", "nsf"],
    "save_log_q": [False, True],
    "threshold_method": ["entropy", "quantile"],
}


def _ins_kwargs(assign):
    kw = {}
    for k, v in assign.items():
        if k == "ftype":
            kw["flow_config"] = {"ftype": v}
        else:
            kw[k] = v
    return kw


def ins_lattice(seed, quick, resume_subsets=True):
    """default + single deviations (quick) / full product (thorough), each with resume histories."""
    import itertools

    names = list(INS_OPTIONS)
    assigns = [{}]
    if quick:
        for k in names:
            for v in INS_OPTIONS[k][1:]:
                assigns.append({k: v})
        assigns.append({"weighted_kl": True})
        assigns.append({"model": "G3"})
        assigns.append({"model": "G2hole"})
        assigns.append({"model": "G2cut"})
        assigns.append({"model": "G2step"})
        assigns.append({"model": "G2step", "strict_threshold": True, "draw_constant": False})
        assigns.append({"model": "G2step", "replace_all": True, "threshold_method": "quantile"})
        assigns.append({"model": "G2cut", "draw_constant": False, "reparameterisation": None})
        assigns.append({"model": "G2hole", "draw_iid_live": False, "strict_threshold": True})
        assigns.append({"model": "G2ba"})
        assigns.append({"model": "G2tilt"})
        assigns.append({"model": "G2tilt", "draw_iid_live": False, "reparameterisation": None})
        assigns.append({"min_remove": 5})
        # base distributions / layers with buffers that are (re)estimated after training
        assigns.append({"flow_config": {"distribution": "lars"}})
        assigns.append({"flow_config": {"distribution": "mvn", "distribution_kwargs": {"var": 2.0}}})
        assigns.append({"flow_config": {"batch_norm_between_layers": True}})
        # a base distribution passed as an object with trainable parameters: every level owns its own copy
        assigns.append({"flow_config": {"distribution": "<trainable-normal-instance:2>"}})
        assigns.append({"flow_config": {"distribution": "<trainable-normal-instance:2>"}, "reset_flow": 2})
        # min_samples larger than the number of samples with a finite likelihood (zero-likelihood region)
        assigns.append({"model": "G2hole", "min_samples": 45, "draw_iid_live": False})
        assigns.append({"model": "G2hole", "min_samples": 45})
        # half of the samples carry a zero weight (zero prior in half of the hypercube) but a finite likelihood,
        # with the min_samples clamp active: zero-weight samples still count towards min_samples
        assigns.append({"model": "G2half", "min_samples": 45, "draw_iid_live": False})
        assigns.append({"model": "G2half", "min_samples": 45})
        # an initial design that includes the closed end of the box: the best points sit exactly on the upper
        # edge, where the (half-open) hypercube prior is zero - finite likelihood, zero weight, clamp active
        assigns.append({"model": "G2corner", "min_samples": 40, "draw_iid_live": False, "threshold_method": "quantile", "threshold_kwargs": {"q": 0.8}})
        assigns.append({"model": "G2corner", "min_samples": 40, "threshold_method": "quantile", "threshold_kwargs": {"q": 0.8}})
        assigns.append({"model": "G2half", "min_samples": 40, "threshold_method": "quantile", "threshold_kwargs": {"q": 0.8}})
        # runs that stop because the criteria are met (not at the iteration cap), also resumed at every checkpoint
        assigns.append({"stopping_criterion": "log_dZ", "tolerance": 5.0, "max_iteration": 8})
        assigns.append({"stopping_criterion": ["ratio", "ess"], "tolerance": [0.5, 1000.0], "check_criteria": "any", "max_iteration": 8})
        # sizes that are equal by default are made to differ: initial samples vs nlive vs per-level draws
        assigns.append({"n_initial": 120})
        assigns.append({"n_initial": 30, "draw_iid_live": False})
        assigns.append({"n_update": 20})
        assigns.append({"n_initial": 80, "n_update": 35, "reset_flow": 2})
        assigns.append({"reset_flow": False})
        # combinations that leave fewer than min_samples above the threshold (training-set clause of C17)
        assigns.append({"draw_iid_live": False, "n_update": 45, "min_samples": 20})
        assigns.append({"draw_iid_live": True, "n_update": 45, "min_samples": 20})
        assigns.append({"draw_iid_live": False, "min_remove": 40, "min_samples": 30})
        assigns.append({"draw_iid_live": False, "max_samples": 70, "min_samples": 30})
        assigns.append({"draw_iid_live": True, "max_samples": 70, "min_samples": 30, "draw_constant": True})
        assigns.append({"max_samples": 120})
    else:
        assigns = []
        for vals in itertools.product(*[INS_OPTIONS[k] for k in names]):
            assigns.append({k: v for k, v in zip(names, vals) if v != INS_OPTIONS[k][0]})
    cfgs = []
    for a in assigns:
        a = dict(a)
        model = a.pop("model", "G2")
        cfgs.append({"kind": "ins", "model": model, "seed": seed, "kwargs": _ins_kwargs(a), "resume": "none"})
    if resume_subsets:
        # every subset of resume points of the 4-iteration default run, and 'every' for the deviations
        for r in range(1, 16):
            pts = tuple(i + 1 for i in range(4) if r >> i & 1)
            cfgs.append({"kind": "ins", "model": "G2", "seed": seed, "kwargs": {}, "resume": "at", "kill_at": pts})
        for a in (assigns[1:] if quick else assigns[1::7]):
            a = dict(a)
            model = a.pop("model", "G2")
            cfgs.append({"kind": "ins", "model": model, "seed": seed, "kwargs": _ins_kwargs(a), "resume": "every"})
    return cfgs


class DrawCap(BaseException):
    """A population / draw loop exceeded its draw-count bound (never a statistical judgement:
    the bound is 2000 batches for one call of ImportanceFlowProposal.draw)."""


@contextlib.contextmanager
def evaluation_cap(limit=300000):
    """General backstop against runs that never end (e.g. a rejection loop against a NaN threshold):
    a bound on the number of points handed to the batch likelihood interface, far above the nominal
    cost of the tiny configurations (a few thousand).  Raised as DrawCap (a BaseException)."""
    from nessai.model import Model

    o = Model.batch_evaluate_log_likelihood
    state = {"n": 0}

    def bel(self, x, *a, **k):
        state["n"] += int(np.size(x))
        if state["n"] > limit:
            raise DrawCap(f"run does not terminate: {state['n']} likelihood evaluations (nominal: a few thousand)")
        return o(self, x, *a, **k)

    Model.batch_evaluate_log_likelihood = bel
    try:
        yield
    finally:
        Model.batch_evaluate_log_likelihood = o


@contextlib.contextmanager
def ins_draw_cap(limit=2000):
    with evaluation_cap():
        with _ins_draw_cap(limit):
            yield


@contextlib.contextmanager
def _ins_draw_cap(limit=2000):
    from nessai.proposal.importance import ImportanceFlowProposal as IFP

    o = IFP.draw

    def draw(self, n, *a, **k):
        cnt = [0]
        orig = self.flow.sample_ith

        def sample_ith(i, N=1):
            cnt[0] += 1
            if cnt[0] > limit:
                raise DrawCap(f"ImportanceFlowProposal.draw: {cnt[0]} batches drawn from flow {i} without collecting {n} samples inside the unit hypercube")
            return orig(i, N=N)

        self.flow.sample_ith = sample_ith
        try:
            return o(self, n, *a, **k)
        finally:
            self.flow.__dict__.pop("sample_ith", None)

    IFP.draw = draw
    try:
        yield
    finally:
        IFP.draw = o


@contextlib.contextmanager
def std_draw_cap(limit=20000, max_populations=400):
    with evaluation_cap():
        with _std_draw_cap(limit, max_populations):
            yield


@contextlib.contextmanager
def _std_draw_cap(limit=20000, max_populations=400):
    """Bound on the latent draws of one FlowProposal.populate call (backstop against hangs)."""
    from nessai.proposal.flowproposal import FlowProposal as FP

    o_dlp, o_pop = FP.draw_latent_prior, FP.populate
    state = {"n": 0, "pops": 0}

    def dlp(self, n):
        state["n"] += 1
        if state["n"] > limit:
            raise DrawCap(f"FlowProposal.populate: {state['n']} latent draws for one pool of {self.poolsize}")
        return o_dlp(self, n)

    def pop(self, *a, **k):
        state["n"] = 0
        state["pops"] += 1
        if state["pops"] > max_populations:
            raise DrawCap(f"run does not terminate: {state['pops']} populations of the proposal pool (nominal: a few dozen)")
        return o_pop(self, *a, **k)

    FP.draw_latent_prior, FP.populate = dlp, pop
    try:
        yield
    finally:
        FP.draw_latent_prior, FP.populate = o_dlp, o_pop


class InsMonitor:
    """C03 oracle evaluated at the end of every INS iteration, after finalise and after resume."""

    def __init__(self):
        self.errs = []
        self.checks = 0
        self.samples_checked = 0
        self.train_sizes = []
        self.min_samples = None
        # after a resume without saved log_q the table is re-derived in float32
        self.rederived = False
        self.started = False

    def err(self, c, d=""):
        self.errs.append((c, str(d)[:400]))

    def check(self, ns, where):
        import torch
        from scipy.special import logsumexp

        self.checks += 1
        prop = ns.proposal
        model = ns.model
        w = np.asarray(prop.weights_array, dtype=float)
        if abs(w.sum() - 1.0) > 1e-9:
            self.err(f"{where}:proposal-weights-do-not-sum-to-one", w)
        sets = [("training", ns.training_samples)]
        if ns.iid_samples is not None:
            sets.append(("iid", ns.iid_samples))
        for name, osmp in sets:
            s, lq = osmp.samples, osmp.log_q
            tag = f"{where}:{name}"
            if s is None:
                continue
            self.samples_checked += len(s)
            if lq is None or lq.shape != (len(s), prop.n_proposals):
                self.err(f"{tag}:log_q-shape", f"{None if lq is None else lq.shape} vs ({len(s)}, {prop.n_proposals})")
                continue
            if len(w) != prop.n_proposals:
                self.err(f"{tag}:number-of-weights", (len(w), prop.n_proposals))
                continue
            counts = np.bincount(s["it"] + 1, minlength=prop.n_proposals) / len(s)
            if np.max(np.abs(counts - w)) > 1e-12:
                self.err(f"{tag}:weights-are-not-the-fraction-drawn-from-each-proposal", f"{w} vs {counts}")
            if np.any(lq[:, 0] != 0.0):
                self.err(f"{tag}:initial-proposal-density-not-zero")
            if not np.all(model.in_unit_hypercube(s)):
                self.err(f"{tag}:sample-outside-unit-hypercube")
            x, log_j = prop.rescale(s)
            with torch.no_grad():
                xt = torch.from_numpy(x).type(torch.get_default_dtype())
                for j, m in enumerate(prop.flow.models):
                    m.eval()
                    ref = m.log_prob(xt).cpu().numpy().astype(np.float64) + log_j
                    got = lq[:, j + 1]
                    both_inf = np.isinf(ref) & (ref == got)
                    bad = ~both_inf & ~(np.abs(ref - got) <= 1e-4 + 1e-4 * np.abs(ref))
                    if np.any(bad):
                        i = int(np.flatnonzero(bad)[0])
                        self.err(f"{tag}:stored-density-differs-from-proposal-re-evaluated", f"proposal {j}, sample {i} (it={s['it'][i]}): stored {got[i]!r} vs {ref[i]!r}; {int(bad.sum())} samples")
                        break
            logQ = logsumexp(lq, b=w, axis=1)
            qtol = 1e-4 if self.rederived else 1e-9
            if np.any(~(np.abs(logQ - s["logQ"]) <= qtol * (1 + np.abs(logQ)))):
                i = int(np.flatnonzero(~(np.abs(logQ - s["logQ"]) <= qtol * (1 + np.abs(logQ))))[0])
                self.err(f"{tag}:logQ-is-not-the-weighted-mixture", f"sample {i}: {s['logQ'][i]!r} vs {logQ[i]!r}")
            with np.errstate(invalid="ignore"):
                w_ref = s["logU"] - s["logQ"]
                w_same = (np.isinf(w_ref) & (w_ref == s["logW"])) | (np.abs(s["logW"] - w_ref) <= 1e-12 * (1 + np.abs(s["logQ"])))
            if np.any(~w_same):
                self.err(f"{tag}:logW-is-not-logU-minus-logQ")
            lu = np.asarray(model.log_prior_unit_hypercube(s), dtype=float)
            if np.any(lu != s["logU"]):
                self.err(f"{tag}:logU-differs-from-model")
            ll = np.asarray(oracle_ll(model)(model.from_unit_hypercube(s)), dtype=float)
            if np.any(~((ll == s["logL"]) | (np.abs(ll - s["logL"]) <= 1e-12 * (1 + np.abs(ll))))):
                self.err(f"{tag}:logL-differs-from-model")
            if np.any(np.diff(s["logL"]) < 0):
                self.err(f"{tag}:not-sorted")

    @contextlib.contextmanager
    def installed(self):
        from nessai.samplers.importancesampler import ImportanceNestedSampler as INS
        from nessai.proposal.importance import ImportanceFlowProposal as IFP

        mon = self
        o_up, o_fin, o_train = INS.update_evidence, INS.finalise, IFP.train

        def update_evidence(ns):
            r = o_up(ns)
            mon.min_samples = ns.min_samples
            mon.check(ns, "iteration")
            return r

        def finalise(ns):
            was = ns.finalised
            r = o_fin(ns)
            if not was:
                mon.check(ns, "finalise")
            return r

        def train(prop, samples, *a, **k):
            mon.train_sizes.append(len(samples))
            return o_train(prop, samples, *a, **k)

        o_pop = INS.populate_live_points

        def populate_live_points(ns):
            mon.started = True
            return o_pop(ns)

        INS.update_evidence, INS.finalise, IFP.train, INS.populate_live_points = update_evidence, finalise, train, populate_live_points
        try:
            yield self
        finally:
            INS.update_evidence, INS.finalise, IFP.train, INS.populate_live_points = o_up, o_fin, o_train, o_pop


def check_ins_results(fs, model, errs, tol=1e-9):
    """C05 oracle for the importance sampler, from the returned arrays only."""
    from scipy.special import logsumexp
    import mpmath as mp

    ns = fs.ns

    def err(c, d=""):
        errs.append((c, str(d)[:400]))

    check_repeated_reads(ns, errs)
    samples = np.asarray(fs.nested_samples)
    hist = ns.history
    # the run (however many times it was interrupted and resumed) must have stopped at the FIRST
    # iteration whose recorded criteria meet the tolerances (at or beyond the minimum)
    try:
        crit = [list(hist["stopping_criteria"][k]) for k in ns.stopping_criterion]
        n_it = min(len(c) for c in crit) if crit else 0
        for j in range(n_it - 1):
            met = [c[j] <= t for c, t in zip(crit, ns.tolerance)]
            if (any(met) if ns._stop_any else all(met)) and (j + 1) >= ns.min_iteration:
                err("ins:ran-on-after-the-recorded-criteria-met-the-tolerances", f"after iteration {j + 1} the recorded {ns.stopping_criterion} = {[c[j] for c in crit]} met {ns.tolerance} ({'any' if ns._stop_any else 'all'}), but {n_it} iterations were performed")
                break
        # ... and not earlier: a run that ended below its iteration cap must end on criteria that are met
        if n_it and n_it == ns.iteration and ns.iteration < ns.max_iteration:
            met = [c[n_it - 1] <= t for c, t in zip(crit, ns.tolerance)]
            if not (any(met) if ns._stop_any else all(met)):
                err("ins:stopped-below-the-cap-although-the-recorded-criteria-do-not-meet-the-tolerances", f"stopped after iteration {n_it} (cap {ns.max_iteration}, minimum {ns.min_iteration}) with {ns.stopping_criterion} = {[c[n_it - 1] for c in crit]} vs {ns.tolerance} ({'any' if ns._stop_any else 'all'})")
    except Exception as e:  # pragma: no cover
        err("ins:stopping-history-unreadable", repr(e))
    n_expected = ns.n_initial + int(np.sum(hist["n_added"]))
    if len(samples) != n_expected:
        err("ins:number-of-returned-samples", f"{len(samples)} vs n_initial {ns.n_initial} + added {hist['n_added']}")
    if np.any(np.diff(samples["logL"]) < 0):
        err("ins:returned-samples-not-ascending")
    ll = np.asarray(oracle_ll(model)(samples), dtype=float)
    if np.any(~((ll == samples["logL"]) | (np.abs(ll - samples["logL"]) <= 1e-12 * (1 + np.abs(ll))))):
        err("ins:stored-logL-differs-from-model")
    lp = np.asarray(model.log_prior(samples), dtype=float)
    if np.any(~((lp == samples["logP"]) | (np.abs(lp - samples["logP"]) <= 1e-9 * (1 + np.abs(lp))))):
        err("ins:stored-logP-differs-from-model", f"{samples['logP'][:3]} vs {lp[:3]}")
    lw = samples["logL"] + samples["logW"]
    n = len(samples)
    logZ = float(logsumexp(lw) - np.log(n))
    mp.mp.dps = 40
    Zi = [mp.exp(mp.mpf(float(v))) for v in lw]
    Zhat = sum(Zi) / n
    u = mp.sqrt(sum((z - Zhat) ** 2 for z in Zi) / (n * (n - 1))) / Zhat
    for name, val in (("fs.logZ", fs.logZ), ("ns.log_evidence", ns.log_evidence)):
        if abs(float(val) - logZ) > tol * (1 + abs(logZ)):
            err("ins:log-evidence-differs-from-recomputation", f"{name}={val!r} vs {logZ!r}")
    if abs(float(fs.logZ_error) - float(u)) > 1e-7 * (1 + float(u)):
        err("ins:log-evidence-error-differs-from-recomputation", f"{fs.logZ_error!r} vs {float(u)!r}")
    pw = np.asarray(ns.log_posterior_weights, dtype=float)
    if len(pw) != n or np.max(np.abs(pw - (lw - logZ))) > 1e-9 * (1 + np.max(np.abs(lw))):
        err("ins:log-posterior-weights-differ-from-recomputation")
    try:
        d = ns.get_result_dictionary()
    except Exception as e:
        err(f"ins:result-dictionary-raises-{type(e).__name__}", e)
        return
    if ns.iid_samples is not None or ns._final_samples is not None:
        if d["log_evidence"] is None or abs(float(d["log_evidence"]) - logZ) > tol * (1 + abs(logZ)):
            err("ins:result-dict-log-evidence", f"{d['log_evidence']!r} vs {logZ!r}")
        if d["samples"] is None or np.asarray(d["samples"]).tobytes() != samples.tobytes():
            err("ins:result-dict-samples-differ")
        if d["log_posterior_weights"] is None or np.asarray(d["log_posterior_weights"]).tobytes() != pw.tobytes():
            err("ins:result-dict-weights-differ")
        if d["log_evidence_error"] is None or abs(float(d["log_evidence_error"]) - float(u)) > 1e-7 * (1 + float(u)):
            err("ins:result-dict-log-evidence-error")
    post = np.asarray(fs.posterior_samples)
    rowset = {r.tobytes() for r in samples}
    if any(r.tobytes() not in rowset for r in post):
        err("ins:posterior-samples-not-rows-of-nested-samples")
    if d["total_likelihood_evaluations"] != model.likelihood_evaluations:
        err("ins:result-dict-evaluation-count")


def ins_digest(ns):
    def os_d(o):
        if o is None:
            return None
        return dict(samples=_b(o.samples), live=_b(o.live_points_indices), nested=_b(o.nested_samples_indices), thr=repr(o.log_likelihood_threshold))

    return dict(
        iteration=ns.iteration,
        training=os_d(ns.training_samples),
        iid=os_d(ns.iid_samples),
        threshold=repr(ns.log_likelihood_threshold),
        sample_counts=repr(sorted(ns.sample_counts.items())),
        weights=repr(sorted(ns.proposal.weights.items())),
        level_count=ns.proposal.level_count,
        logZ=repr(float(ns.log_evidence)),
        history={k: repr(v) for k, v in (ns.history or {}).items() if k != "sampling_time"},
        finalised=ns.finalised,
    )


def run_ins_case(cfg, want=("c03", "c05"), keep_output=False, run_kwargs=None):
    from nessai.flowsampler import FlowSampler

    reset_globals()
    out = scratch("ins")
    kw = ins_base(cfg.get("seed", 0), **cfg.get("kwargs", {}))
    mon = InsMonitor()
    at = "every" if cfg.get("resume") == "every" else set(cfg.get("kill_at", ()))
    killer = CheckpointKiller(at)
    res = dict(key=cfg_key(cfg), errs=[], iterations=0, resumes=0)
    guards = []
    fs = None
    model = None
    started = False
    try:
        with mon.installed(), killer.installed(), ins_draw_cap():
            for attempt in range(100):
                model = make(cfg.get("model", "G2"))
                guards.append(Guarded(model))
                try:
                    fs = FlowSampler(model, output=out, resume=True, **clone_kwargs(kw))
                    if fs.ns.iteration > 0 or fs.ns.finalised:
                        if not kw.get("save_log_q", False):
                            mon.rederived = True
                        mon.check(fs.ns, "after-resume")
                    fs.run(**{"plot": False, "save": True, **cfg.get("run_kwargs", {}), **(run_kwargs or {})})
                    break
                except KillSignal:
                    res["resumes"] += 1
                    if fs is not None and getattr(fs.ns, "finalised", False):
                        killer.at = ()
                    continue
            else:
                res["errs"].append(("run-did-not-finish-after-100-resumes", ""))
    except DrawCap as e:
        # C20's business (known finding for reparameterisation=None); other checks skip the run
        res["draw_cap"] = str(e)
        fs = None
    except Exception as e:
        import traceback

        if not mon.started and res["resumes"] == 0:
            res["rejected_up_front"] = f"{type(e).__name__}: {e}"
        else:
            res["errs"].append((f"run-raises-{type(e).__name__}", f"{e} | {traceback.format_exc()[-600:]}"))
        fs = None
    res["iterations"] = mon.checks
    res["samples_checked"] = mon.samples_checked
    if "c03" in want:
        res["errs"] += mon.errs
    if mon.min_samples is not None and any(t < mon.min_samples for t in mon.train_sizes):
        res["errs"].append(("proposal-trained-on-fewer-than-min_samples", f"{mon.train_sizes} min_samples={mon.min_samples}"))
    res["train_sizes"] = mon.train_sizes
    for g in guards:
        if g.bad:
            res["errs"].append(("likelihood-called-outside-prior-support", g.bad[0]))
    if fs is not None and "c05" in want and not res["errs"]:
        check_ins_results(fs, model, res["errs"])
    if fs is not None:
        res["logZ"] = float(fs.logZ)
        res["n_samples"] = int(len(fs.nested_samples))
        res["ns_iterations"] = int(fs.ns.iteration)
    if keep_output:
        res.update(output=out, fs=fs, model=model)
    else:
        shutil.rmtree(out, ignore_errors=True)
    return res
