"""Real-run driver: tiny configurations of both samplers, resume histories,
monitors and result oracles (shared by C01-B, C03, C05, C09, C12, C15, C20)."""
import contextlib
import copy
import math
import os
import shutil
import tempfile

import numpy as np

from .monitors import StdMonitor
from .tinymodels import Guarded, KillSignal, make


def scratch(prefix="run"):
    return tempfile.mkdtemp(prefix=f"nessai-verif-{prefix}-")


def reset_globals():
    """Per-case reset of nessai's process-global state."""
    import torch
    from nessai import config
    from nessai.livepoint import reset_extra_live_points_parameters

    reset_extra_live_points_parameters()
    torch.set_default_dtype(torch.float32)
    config.general.eps = 1e-8
    try:
        from nessai.utils import multiprocessing as nmp

        nmp._model = None
    except Exception:
        pass


# ---------------------------------------------------------------------------------
# configurations

FLOW_TINY = dict(n_blocks=2, n_neurons=4, n_layers=1)
TRAIN_TINY = dict(max_epochs=5, patience=5, batch_size=100)


def std_base(seed=0, **over):
    kw = dict(
        nlive=20,
        stopping=0.5,
        maximum_uninformed=20,
        poolsize=20,
        flow_config=dict(FLOW_TINY),
        training_config=dict(TRAIN_TINY),
        plot=False,
        checkpointing=True,
        checkpoint_on_iteration=True,
        checkpoint_interval=25,
        seed=seed,
        signal_handling=False,
        result_extension="json",
    )
    for k, v in over.items():
        if k in ("flow_config", "training_config") and isinstance(v, dict):
            kw[k] = {**kw[k], **v}
        else:
            kw[k] = v
    return kw


def standard_lattice(seed, quick):
    """default + all single deviations (quick); more values and pairs (thorough)."""
    devs = [
        {},
        {"resume": "every"},
        {"kwargs": {"analytic_priors": True}, "model": "G2ramp"},
        {"model": "G2ramp"},
        {"model": "G3"},
        {"kwargs": {"latent_prior": "gaussian", "constant_volume_mode": False}},
        {"kwargs": {"latent_prior": "uniform_nball"}},
        {"kwargs": {"latent_prior": "flow", "constant_volume_mode": False}},
        {"kwargs": {"reparameterisations": "rescaletobounds"}},
        {"kwargs": {"reparameterisations": {"x0": "inversion", "x1": "rescaletobounds"}}},
        {"kwargs": {"reparameterisations": "logit"}},
        {"kwargs": {"reparameterisations": "null"}},
        {"kwargs": {"flow_config": {"ftype": "maf"}}},
        {"kwargs": {"flow_config": {"ftype": "nsf"}}},
        {"kwargs": {"shrinkage_expectation": "t"}},
        {"kwargs": {"flow_proposal_class": "clusteringflowproposal"}},
        {"kwargs": {"constant_volume_mode": False}},
        {"kwargs": {"maximum_uninformed": False}},
        {"kwargs": {"nlive": 10, "poolsize": 10}},
        {"kwargs": {"max_iteration": 30}},
        {"kwargs": {"accumulate_weights": True}},
        {"kwargs": {"poolsize": 7, "drawsize": 3}},
    ]
    if not quick:
        more = []
        for d in devs[2:]:
            d2 = copy.deepcopy(d)
            d2["resume"] = "every"
            more.append(d2)
        for lp in ("uniform", "uniform_nsphere"):
            more.append({"kwargs": {"latent_prior": lp, "constant_volume_mode": lp == "uniform_nsphere"}})
        for rp in ("zscore", "default", "rescale"):
            more.append({"kwargs": {"reparameterisations": rp}})
        more.append({"kwargs": {"flow_proposal_class": "flowproposal", "truncate_log_q": True}})
        more.append({"kwargs": {"fixed_radius": 2.0}})
        more.append({"kwargs": {"nlive": 25, "poolsize": 50}})
        devs += more
    cfgs = []
    for i, d in enumerate(devs):
        for s in ((seed,) if quick else (seed, seed + 1)):
            cfgs.append({"kind": "std", "model": d.get("model", "G2"), "seed": s, "kwargs": d.get("kwargs", {}), "resume": d.get("resume", "none")})
    return cfgs


def cfg_key(cfg):
    kw = cfg.get("kwargs", {})
    parts = [cfg.get("kind", "std"), cfg.get("model", "G2")]
    for k in sorted(kw):
        parts.append(f"{k}={kw[k]}")
    if cfg.get("resume", "none") != "none":
        parts.append(f"resume={cfg['resume']}")
    return ",".join(str(p) for p in parts).replace(" ", "")


# ---------------------------------------------------------------------------------
# digests


def _b(a):
    return None if a is None else np.ascontiguousarray(a).tobytes()


def std_digest(ns):
    """Result-bearing state of a standard sampler (C12 field list)."""
    d = dict(
        iteration=ns.iteration,
        live_points=_b(ns.live_points),
        nested_samples=[r.tobytes() for r in ns.nested_samples],
        logLs=[float(v) for v in ns.state.logLs],
        log_vols=[float(v) for v in ns.state.log_vols],
        info=[float(v) for v in ns.state.info],
        logZ=float(ns.state.logZ),
        insertion_indices=[int(i) for i in ns.insertion_indices],
        logLmin=float(ns.logLmin),
        logLmax=float(ns.logLmax),
        condition=float(ns.condition),
        accepted=ns.accepted,
        rejected=ns.rejected,
        block_iteration=ns.block_iteration,
        block_acceptance=float(ns.block_acceptance),
        acceptance_history=[float(v) for v in ns.acceptance_history],
        finalised=ns.finalised,
        uninformed_sampling=ns.uninformed_sampling,
        history={k: repr(v) for k, v in (ns.history or {}).items() if k != "sampling_time"},
    )
    return d


# ---------------------------------------------------------------------------------
# kill-at-checkpoint plumbing


class CheckpointKiller:
    """Raises KillSignal right after the k-th completed checkpoint dump (k in `at`),
    or after every dump when at == 'every'."""

    def __init__(self, at):
        self.at = at
        self.count = 0
        self.killed = 0

    @contextlib.contextmanager
    def installed(self):
        import nessai.samplers.base as base

        orig = base.safe_file_dump

        def dump(*a, **k):
            r = orig(*a, **k)
            self.count += 1
            if self.at == "every" or (isinstance(self.at, (set, list, tuple)) and self.count in self.at):
                self.killed += 1
                raise KillSignal(self.count)
            return r

        base.safe_file_dump = dump
        try:
            yield self
        finally:
            base.safe_file_dump = orig


# ---------------------------------------------------------------------------------
# oracles on finished standard runs (C05)


def recompute_standard(logls, nlive, n_iter, expectation, finalised):
    """Independent (mpmath) recomputation of nessai's documented estimator from the
    returned log-likelihoods.  Returns dict(logZ, info, log_w)."""
    import mpmath as mp

    mp.mp.dps = 40
    N = len(logls)
    sched = [nlive] * N
    if finalised:
        for k in range(nlive):
            sched[N - 1 - k] = k + 1
    lv = [mp.mpf(0)]
    for n in sched:
        n = mp.mpf(n)
        lv.append(lv[-1] + (-1 / n if expectation == "logt" else -mp.log(1 + 1 / n)))
    X = [mp.exp(v) for v in lv]
    m = max(logls)
    L = [mp.exp(mp.mpf(float(l)) - m) for l in logls]
    # rectangle-rule evidence and Skilling's information recursion (nessai's convention:
    # the information is taken as 0 until two finite contributions exist)
    Z = mp.mpf(0)
    info = mp.mpf(0)
    for i in range(N):
        w = L[i] * (X[i] - X[i + 1])
        Znew = Z + w
        if Z > 0 and Znew > 0:
            logZo, logZn = mp.log(Z) + m, mp.log(Znew) + m
            info = (w / Znew) * mp.mpf(float(logls[i])) + (Z / Znew) * (info + logZo) - logZn
        Z = Znew
    rect = mp.log(Z) + m
    Xc = X + [mp.mpf(0)]
    Lc = [mp.mpf(0)] + L + [L[-1]]
    trap = sum((Lc[k] + Lc[k + 1]) / 2 * (Xc[k] - Xc[k + 1]) for k in range(N + 1))
    logZ_trap = mp.log(trap) + m
    logw = [float(mp.mpf(float(logls[i])) + mp.log(X[i] - X[i + 1]) - logZ_trap) for i in range(N)]
    return dict(logZ=float(logZ_trap if finalised else rect), logZ_rect=float(rect), info=float(info), log_w=logw)


def check_std_results(fs, model, errs, capped=False, tol=1e-9):
    """C05 oracle for the standard sampler: everything recomputed from the returned arrays."""
    ns = fs.ns
    samples = np.asarray(fs.nested_samples)
    d = ns.get_result_dictionary()

    def err(c, detail=""):
        errs.append((c, str(detail)[:400]))

    nlive = ns.nlive
    finalised = bool(ns.finalised)
    if finalised and capped and ns.condition > ns.tolerance:
        err("capped-run-was-finalised")
    want_n = ns.iteration + nlive if finalised else ns.iteration
    if len(samples) != want_n:
        err("number-of-returned-samples", f"{len(samples)} vs iteration {ns.iteration} + nlive {nlive} (finalised={finalised})")
        return
    if np.any(np.diff(samples["logL"]) < 0):
        err("returned-samples-not-ascending")
    okp, okl, det = _model_values(model, samples)
    if not okp:
        err("stored-logP-differs-from-model", det)
    if not okl:
        err("stored-logL-differs-from-model", det)
    rec = recompute_standard(samples["logL"], nlive, ns.iteration, ns.state.expectation, finalised)
    for name, val in (("fs.logZ", fs.logZ), ("ns.log_evidence", ns.log_evidence), ("result['log_evidence']", d["log_evidence"])):
        if not (abs(float(val) - rec["logZ"]) <= tol * (1 + abs(rec["logZ"]))):
            err("log-evidence-differs-from-recomputation", f"{name}={val!r} vs {rec['logZ']!r}")
    exp_err = math.sqrt(max(rec["info"], 0.0) / nlive)
    for name, val in (("fs.logZ_error", fs.logZ_error), ("result['log_evidence_error']", d["log_evidence_error"])):
        if not (abs(float(val) - exp_err) <= 1e-7 * (1 + exp_err)):
            err("log-evidence-error-differs-from-recomputation", f"{name}={val!r} vs sqrt(H/nlive)={exp_err!r} (H={rec['info']!r})")
    if abs(float(d["information"]) - rec["info"]) > 1e-7 * (1 + abs(rec["info"])):
        err("information-differs-from-recomputation", f"{d['information']!r} vs {rec['info']!r}")
    lw = np.asarray(ns.state.log_posterior_weights, dtype=float)
    if finalised:
        if len(lw) != len(samples) or np.max(np.abs(lw - np.array(rec["log_w"]))) > 1e-8:
            err("log-posterior-weights-differ-from-recomputation", f"max diff {np.max(np.abs(lw - np.array(rec['log_w']))) if len(lw) == len(samples) else 'length'}")
    if np.asarray(d["log_posterior_weights"]).tobytes() != lw.tobytes():
        err("result-dict-weights-differ-from-sampler")
    if np.asarray(d["nested_samples"]).tobytes() != samples.tobytes():
        err("result-dict-samples-differ-from-sampler")
    birth = np.asarray(d["logL_birth"], dtype=float)
    if len(birth) != len(samples) or not np.all(birth < samples["logL"]):
        err("birth-logL-not-strictly-below-sample-logL", f"{int(np.sum(~(birth < samples['logL']))) if len(birth) == len(samples) else 'length'} rows")
    post = np.asarray(fs.posterior_samples)
    ns_rows = {r.tobytes() for r in samples}
    if any(r.tobytes() not in ns_rows for r in post):
        err("posterior-samples-not-rows-of-nested-samples")
    if len(d["insertion_indices"]) != ns.iteration:
        err("result-dict-insertion-indices-length", (len(d["insertion_indices"]), ns.iteration))
    if d["total_likelihood_evaluations"] != model.likelihood_evaluations:
        err("result-dict-evaluation-count")


def _model_values(model, x):
    from .monitors import model_values

    return model_values(model, x)


# ---------------------------------------------------------------------------------
# one standard run with monitors and a resume history


def run_standard_case(cfg, want=("c01", "c05"), keep_output=False):
    from nessai.flowsampler import FlowSampler

    reset_globals()
    out = scratch("std")
    kw = std_base(cfg.get("seed", 0), **cfg.get("kwargs", {}))
    mon = StdMonitor()
    killer = CheckpointKiller(cfg["resume"] if cfg.get("resume") == "every" else cfg.get("kill_at", ()))
    res = dict(key=cfg_key(cfg), errs=[], iterations=0, resumes=0)
    guards = []
    fs = None
    model = None
    try:
        with mon.installed(), killer.installed():
            for attempt in range(200):
                model = make(cfg.get("model", "G2"))
                guards.append(Guarded(model))
                try:
                    fs = FlowSampler(model, output=out, resume=True, **copy.deepcopy(kw))
                    fs.run(plot=False, save=True)
                    break
                except KillSignal:
                    res["resumes"] += 1
                    if killer.at == "every" and fs is not None and getattr(fs.ns, "finalised", False):
                        # the final checkpoint has been written; one more resume returns the finished run
                        killer.at = ()
                    continue
            else:
                res["errs"].append(("run-did-not-finish-after-200-resumes", ""))
    except Exception as e:
        import traceback

        if mon.populations == 0 and not any(g.rows for g in guards) and res["resumes"] == 0:
            # configuration rejected before any sampling started: allowed (C20), not a failure
            res["rejected_up_front"] = f"{type(e).__name__}: {e}"
        else:
            res["errs"].append((f"run-raises-{type(e).__name__}", f"{e} | {traceback.format_exc()[-600:]}"))
        fs = None
    res["iterations"] = mon.iterations
    res["insert_positions"] = sorted(mon.insert_positions)
    if "c01" in want:
        res["errs"] += mon.errs
    for g in guards:
        if g.bad:
            res["errs"].append(("likelihood-called-outside-prior-support", g.bad[0]))
    if fs is not None and "c05" in want and not res["errs"]:
        check_std_results(fs, model, res["errs"], capped="max_iteration" in cfg.get("kwargs", {}))
    if fs is not None:
        res["logZ"] = float(fs.logZ)
        res["n_samples"] = int(len(fs.nested_samples))
        res["finalised"] = bool(fs.ns.finalised)
    if keep_output:
        res["output"] = out
        res["fs"] = fs
        res["model"] = model
    else:
        shutil.rmtree(out, ignore_errors=True)
    return res
