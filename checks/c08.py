"""C08 - flow and proposal densities are consistent with their samples and normalised.

Flow-configuration lattice x weight states x point lattice: forward/inverse
round trip, opposite log-determinants, generated-density == evaluated-density,
array-level interface == torch model composed by hand, and (2-D) quadrature of
the density on a grid.  Proposal level: the density a flow-based proposal
attaches to a generated physical point equals the density it computes when the
same point is passed forwards, for every latent prior and a set of
reparameterisations (FlowProposal) and for the importance proposal.
"""
import itertools
import shutil

import numpy as np

from mc import runs
from mc.tinymodels import make

LEVEL = "exploration"


def flow_lattice(quick):
    base = dict(ftype="realnvp", n_blocks=2, n_neurons=8, n_layers=1)
    devs = [
        {},
        {"ftype": "maf"},
        {"ftype": "nsf"},
        {"linear_transform": "permutation"},
        {"linear_transform": "lu"},
        {"linear_transform": "svd"},
        {"linear_transform": None},
        {"batch_norm_between_layers": False},
        {"batch_norm_between_layers": True},
        {"batch_norm_between_layers": False, "actnorm": True},
        {"mask": [1, -1]},
        {"net": "mlp"},
        {"net": "resnet"},
        # stochastic / mode-dependent layers: must be inert whenever the public API evaluates
        {"net": "mlp", "n_layers": 2, "dropout_probability": 0.3},
        {"net": "resnet", "n_layers": 2, "dropout_probability": 0.3},
        {"ftype": "maf", "dropout_probability": 0.3},
        {"ftype": "nsf", "dropout_probability": 0.3},
        {"distribution": "lars", "distribution_kwargs": {"net_kwargs": {"dropout_probability": 0.3}}},
        {"distribution": "mvn"},
        {"distribution": "mvn", "distribution_kwargs": {"var": 4.0}},
        {"distribution": "mvn", "distribution_kwargs": {"var": 0.25}},
        {"ftype": "nsf", "distribution": "mvn", "distribution_kwargs": {"var": 2.0}},
        {"distribution": "uniform", "distribution_kwargs": {"low": -3.0, "high": 3.0}},
        {"distribution": "lars"},
        {"ftype": "maf", "batch_norm_between_layers": True},
        {"ftype": "nsf", "num_bins": 4},
        {"pre_transform": "batch_norm"},
        {"n_blocks": 1},
        {"n_blocks": 4, "n_neurons": 16, "n_layers": 2},
        {"activation": "tanh"},
    ]
    cfgs = []
    for d in devs:
        for dims in (2, 4):
            if "mask" in d and dims == 4:
                d = dict(d, mask=[1, -1, 1, -1])
            for dtype in ("float32", "float64"):
                if quick and dtype == "float64" and d and "ftype" not in d:
                    continue
                for weights in ("fresh", "trained", "reset_weights", "reset_permutations"):
                    stateful = any(k in d for k in ("batch_norm_between_layers", "actnorm", "pre_transform", "dropout_probability")) or "net_kwargs" in str(d)
                    if quick and weights in ("reset_weights", "reset_permutations") and d and not (stateful and weights == "reset_weights" and dims == 2):
                        continue
                    cfgs.append(dict(flow={**base, **d, "n_inputs": dims}, dtype=dtype, weights=weights, label=f"{sorted(d.items())}|d={dims}|{dtype}|{weights}"))
                    if dims == 2 and dtype == "float32" and not (quick and weights == "reset_permutations"):
                        cfgs.append(dict(flow={**base, **d, "n_inputs": dims}, dtype=dtype, weights=weights, order="eval-first", label=f"{sorted(d.items())}|d={dims}|{dtype}|{weights}|eval-first"))
    if not quick:
        # pairwise-ish: combine flow types with linear transforms and batch norm
        for ft, lt, bn in itertools.product(("realnvp", "maf", "nsf"), (None, "permutation", "lu", "svd"), (False, True)):
            d = {"ftype": ft, "linear_transform": lt, "batch_norm_between_layers": bn}
            cfgs.append(dict(flow={**base, **d, "n_inputs": 2}, dtype="float32", weights="trained", label=f"{sorted(d.items(), key=str)}|d=2|float32|trained"))
    return cfgs


def grid(d, n=7, lim=3.0):
    ax = np.linspace(-lim, lim, n)
    return np.array(list(itertools.product(*[ax] * d)))


def flow_worker(cfg):
    import torch
    from nessai.flowmodel import FlowModel
    from nessai.utils.torchutils import set_torch_default_dtype

    runs.reset_globals()
    errs = []
    out = runs.scratch("c08")
    label = cfg["label"]
    f64 = cfg["dtype"] == "float64"
    tol = 1e-9 if f64 else 2e-4
    n_checks = 0
    try:
        set_torch_default_dtype(cfg["dtype"])
        torch.manual_seed(7)
        np.random.seed(7)
        d = cfg["flow"]["n_inputs"]
        fm = FlowModel(flow_config=dict(cfg["flow"]), training_config=dict(max_epochs=5, patience=5, batch_size=100), output=out)
        try:
            fm.initialise()
        except Exception as e:
            return dict(label=label, errs=[], rejected=f"{type(e).__name__}: {str(e)[:80]}", n=0)
        data = np.random.RandomState(3).randn(300, d) * np.linspace(0.5, 1.5, d) + 0.3
        data0 = data.tobytes()
        if cfg["weights"] != "fresh":
            fm.train(data, plot=False)
            if data.tobytes() != data0:
                errs.append(("api:training-modifies-the-training-data", ""))
        if cfg["weights"] == "reset_weights":
            fm.reset_model(weights=True)
        elif cfg["weights"] == "reset_permutations":
            fm.reset_model(weights=False, permutations=True)
        # array-level reads must be pure whatever their order: generate-and-report equals
        # evaluate, and asking for the density of the same points twice gives the same answer
        # (no data-dependent initialisation at evaluation time).  No explicit model.eval() here:
        # the mode is whatever the public API leaves behind.
        gsub = grid(d)
        gsub = gsub[:: max(1, len(gsub) // 40)].astype("float64" if f64 else "float32")
        gsub0_ = gsub.tobytes()
        with np.errstate(all="ignore"):
            if cfg.get("order", "sample-first") == "sample-first":
                xs_, lps_ = fm.sample_and_log_prob(N=48)
                lpe_ = fm.log_prob(xs_)
                lpg1 = fm.log_prob(gsub)
            else:
                lpg1 = fm.log_prob(gsub)
                xs_, lps_ = fm.sample_and_log_prob(N=48)
                lpe_ = fm.log_prob(xs_)
            lpg2 = fm.log_prob(gsub)
            _, lpf_ = fm.forward_and_log_prob(gsub)
            lpe2_ = fm.log_prob(xs_)
        n_checks += 4
        if gsub.tobytes() != gsub0_:
            errs.append(("api:density-evaluation-modifies-its-input", ""))
        # a flow that contracts strongly (|log density| large) amplifies rounding of the sample
        # through the inverse map: only moderately scaled samples are compared here, the
        # contraction-aware comparison of all points follows below
        lim_ = 30.0 if f64 else 12.0
        fin = np.isfinite(lps_) & np.isfinite(lpe_) & (np.abs(lps_) < lim_) & (np.abs(lpe_) < lim_)
        amp_tol = tol * 50
        if fin.any() and np.max(np.abs(lps_[fin] - lpe_[fin]) / (1 + np.abs(lpe_[fin]))) > amp_tol:
            errs.append(("api:generated-density-differs-from-evaluated-density", f"max diff {np.max(np.abs(lps_[fin] - lpe_[fin]))} ({cfg.get('order')})"))
        fg = np.isfinite(lpg1) & np.isfinite(lpg2)
        if fg.any() and np.max(np.abs(lpg1[fg] - lpg2[fg])) > 1e-6 * (1 + np.max(np.abs(lpg1[fg]))):
            errs.append(("api:density-of-the-same-points-changes-between-two-reads", f"max diff {np.max(np.abs(lpg1[fg] - lpg2[fg]))} ({cfg.get('order')})"))
        if fin.any() and np.max(np.abs(lpe_[fin] - lpe2_[fin])) > 1e-6 * (1 + np.max(np.abs(lpe_[fin]))):
            errs.append(("api:density-of-the-same-points-changes-between-two-reads", f"own samples, max diff {np.max(np.abs(lpe_[fin] - lpe2_[fin]))} ({cfg.get('order')})"))
        ff = fg & np.isfinite(lpf_)
        if ff.any() and np.max(np.abs(lpf_[ff] - lpg1[ff]) / (1 + np.abs(lpg1[ff]))) > tol * 10:
            errs.append(("api:forward_and_log_prob-differs-from-log_prob", f"max diff {np.max(np.abs(lpf_[ff] - lpg1[ff]))}"))
        model = fm.model
        model.eval()
        tdt = torch.get_default_dtype()
        pts = np.concatenate([grid(d), fm.sample(64)])
        pts = pts[np.all(np.isfinite(pts), axis=1)]

        def rel(a, b):
            return np.abs(a - b) / (1 + np.abs(b))

        with torch.no_grad():
            xt = torch.from_numpy(pts).type(tdt)
            z, ldj = model.forward(xt)
            xr, ldj_inv = model.inverse(z)
            base_lp = model.base_distribution_log_prob(z)
            lp_direct = model.log_prob(xt)
        ok = torch.isfinite(z).all(dim=1) & torch.isfinite(ldj)
        okn = ok.numpy()
        n_checks += 1
        # a) round trip and opposite log-determinants (where the forward image is finite)
        if okn.any():
            scale = 1 + np.abs(pts[okn]).max()
            # the inverse amplifies rounding by the local contraction of the forward map
            amp = np.exp(np.clip(np.abs(ldj.numpy()[okn]) / d, 0, 30))
            rt = np.abs(xr.numpy()[okn] - pts[okn]).max(axis=1)
            bad = rt > tol * scale * np.maximum(1.0, amp) * 10
            if bad.any():
                i = int(np.flatnonzero(bad)[0])
                errs.append((f"inverse(forward(x))!=x:{label}", f"{pts[okn][i]} -> {xr.numpy()[okn][i]}"))
            eps_t0 = 1e-16 if f64 else 1e-7
            dec = (eps_t0 * amp) < 1e-3
            dl = rel(ldj.numpy()[okn], -ldj_inv.numpy()[okn])
            if dec.any() and dl[dec].max() > tol * 10:
                errs.append((f"log-determinants-not-opposite:{label}", f"max rel diff {dl.max()!r}"))
            dlp = rel(lp_direct.numpy()[okn], (base_lp + ldj).numpy()[okn])
            if dlp.max() > tol * 10:
                errs.append((f"log_prob!=base+logdet:{label}", f"max rel diff {dlp.max()!r}"))
        # b) generated density equals evaluated density
        torch.manual_seed(11)
        with torch.no_grad():
            xs, lps = model.sample_and_log_prob(200)
            lpe = model.log_prob(xs)
            _, ldj_s = model.forward(xs)
        fin = (torch.isfinite(lps) & torch.isfinite(lpe) & torch.isfinite(ldj_s)).numpy()
        n_checks += 1
        # re-evaluating at a generated sample re-runs the forward map on a rounded input: the error
        # is amplified by the local contraction exp(|log det|/d) (1e5-1e10 for untrained batch norm,
        # whose running variance starts at zero); undecidable once eps * amplification is not small
        eps_t = 1e-16 if f64 else 1e-7
        amp_s = np.exp(np.clip(np.abs(ldj_s.numpy()) / d, 0, 60))
        decidable = fin & (eps_t * amp_s < 1e-3)
        dd = np.abs(lps.numpy() - lpe.numpy())
        lim = (tol * 50) * (1 + np.abs(lpe.numpy())) * np.maximum(1.0, amp_s * eps_t / (1e-9 if f64 else 2e-4))
        if decidable.any() and np.any(dd[decidable] > lim[decidable]):
            i = int(np.flatnonzero(decidable & (dd > lim))[0])
            errs.append((f"density-at-generation!=density-at-evaluation:{label}", f"{lps.numpy()[i]!r} vs {lpe.numpy()[i]!r} (amplification {amp_s[i]!r})"))
        # c) array-level interface == torch model
        zf, lpf = fm.forward_and_log_prob(pts)
        lp_arr = fm.log_prob(pts)
        n_checks += 1
        if okn.any():
            if rel(zf[okn], z.numpy()[okn]).max() > tol or rel(lpf[okn], lp_direct.numpy()[okn]).max() > tol:
                errs.append((f"forward_and_log_prob!=model:{label}", ""))
            if rel(lp_arr[okn], lp_direct.numpy()[okn]).max() > tol:
                errs.append((f"FlowModel.log_prob!=model:{label}", ""))
        zs = np.random.RandomState(5).randn(50, d) * 0.7
        with torch.no_grad():
            zt = torch.from_numpy(zs).type(tdt)
            xi, lji = model.inverse(zt)
            ref = (model.base_distribution_log_prob(zt) - lji).numpy()
        xa, lpa = fm.sample_and_log_prob(z=zs)
        fin2 = np.isfinite(ref) & np.isfinite(lpa)
        if fin2.any() and (rel(xa[fin2], xi.numpy()[fin2]).max() > tol or rel(lpa[fin2], ref[fin2]).max() > tol):
            errs.append((f"sample_and_log_prob(z)!=base(z)-logdet:{label}", ""))
        from nessai.flows.distributions import MultivariateNormal  # noqa: F401
        from nessai.utils.distributions import get_uniform_distribution

        alt = get_uniform_distribution(d, 3.0, device=fm.device)
        with torch.no_grad():
            ref_alt = (alt.log_prob(zt) - lji).numpy()
        xa2, lpa2 = fm.sample_and_log_prob(z=zs, alt_dist=alt)
        fin3 = np.isfinite(ref_alt) & np.isfinite(lpa2)
        if fin3.any() and rel(lpa2[fin3], ref_alt[fin3]).max() > tol:
            errs.append((f"sample_and_log_prob(z,alt_dist)!=alt(z)-logdet:{label}", ""))
        # d) normalisation in two dimensions (adaptive affine grid around the flow's own samples)
        if d == 2 and cfg["flow"].get("distribution") != "lars":
            s = fm.sample(4000)
            s = s[np.all(np.isfinite(s), axis=1)]
            mu, sd = np.median(s, axis=0), 1.4826 * np.median(np.abs(s - np.median(s, axis=0)), axis=0)
            if np.all(sd > 1e-6) and np.all(sd < 1e3):
                m = 401
                u = np.linspace(-12, 12, m)
                gx, gy = np.meshgrid(mu[0] + sd[0] * u, mu[1] + sd[1] * u, indexing="ij")
                lp = fm.log_prob(np.stack([gx.ravel(), gy.ravel()], axis=1))
                lp = np.where(np.isfinite(lp), lp, -np.inf)
                cell = (sd[0] * (u[1] - u[0])) * (sd[1] * (u[1] - u[0]))
                integral = float(np.sum(np.exp(lp)) * cell)
                n_checks += 1
                # mass outside +-12 robust sigmas and the rectangle rule account for a few per cent at most
                if not (0.9 <= integral <= 1.05):
                    errs.append((f"density-does-not-integrate-to-one:{label}", f"integral {integral!r} (grid centred {mu}, robust width {sd})"))
    except Exception as e:
        import traceback

        errs.append((f"raises-{type(e).__name__}:{label}", f"{e} | {traceback.format_exc()[-300:]}"))
    finally:
        shutil.rmtree(out, ignore_errors=True)
        runs.reset_globals()
    seen, viol = set(), []
    for k, dd_ in errs:
        if k not in seen:
            seen.add(k)
            viol.append((k, dd_, {"mode": "flow", "cfg": {k2: v for k2, v in cfg.items()}}))
    return dict(label=label, errs=viol, rejected=None, n=n_checks)


# ---------------------------------------------------------------------------------
# proposal level


def proposal_lattice(quick):
    out = []
    lps = ["truncated_gaussian", "gaussian", "uniform", "uniform_nsphere", "uniform_nball", "flow"]
    # only reparameterisations whose forward map is deterministic: folded (inversion) and
    # auxiliary-radius (angle) maps send a generated point forwards to a different latent point
    rps = [None, "rescaletobounds", "logit", {"x0": "offset", "x1": "rescaletobounds"}, "zscore", {"x0": {"reparameterisation": "scaleandshift", "scale": 2.0, "shift": 0.5}}]
    for lp in lps:
        for rp in (rps[:3] if quick else rps):
            for ft in (("realnvp",) if quick else ("realnvp", "maf", "nsf")):
                out.append(dict(latent_prior=lp, reparameterisations=rp, ftype=ft, label=f"flowproposal|{lp}|{rp}|{ft}"))
    return out


def proposal_worker(cfg):
    import torch
    from nessai.proposal.flowproposal import FlowProposal

    runs.reset_globals()
    errs = []
    label = cfg["label"]
    out = runs.scratch("c08p")
    n = 0
    try:
        torch.manual_seed(3)
        np.random.seed(3)
        model = make("G2")
        cv = cfg["latent_prior"] in ("truncated_gaussian", "uniform_nsphere", "uniform_nball")
        prop = FlowProposal(
            model, output=out, poolsize=50, plot=False, latent_prior=cfg["latent_prior"], constant_volume_mode=cv,
            reparameterisations=cfg["reparameterisations"],
            flow_config=dict(runs.FLOW_TINY, n_neurons=8, ftype=cfg["ftype"]), training_config=dict(runs.TRAIN_TINY),
        )
        try:
            prop.initialise()
        except Exception as e:
            return dict(label=label, errs=[], rejected=f"{type(e).__name__}: {str(e)[:80]}", n=0)
        live = model.new_point(100)
        live["logP"] = model.log_prior(live)
        live["logL"] = model.log_likelihood(live)
        prop.train(live, plot=False)
        prop.r = 2.0 if not prop.fixed_radius else prop.fixed_radius
        prop.alt_dist = prop.get_alt_distribution()
        prop.prep_latent_prior()
        z = prop.draw_latent_prior(300)
        x, log_q, z_kept = prop.backward_pass(z, rescale=True, return_z=True)
        n += 1
        if len(x) == 0:
            errs.append((f"no-point-generated:{label}", ""))
        else:
            z_f, log_q_f = prop.forward_pass(x, rescale=True, compute_radius=False)
            m = min(len(log_q), len(log_q_f))
            corr = np.zeros(m)
            if prop.alt_dist is not None:
                with torch.no_grad():
                    zt = torch.from_numpy(z_kept[:m]).type(torch.get_default_dtype())
                    corr = (prop.alt_dist.log_prob(zt) - prop.flow.model.base_distribution_log_prob(zt)).numpy()
            a, b = log_q[:m], log_q_f[:m] + corr
            fin = np.isfinite(a) & np.isfinite(b)
            # float32 flows: comparisons are decidable only where eps * local contraction is small
            with torch.no_grad():
                base_f = prop.flow.model.base_distribution_log_prob(torch.from_numpy(z_f[:m]).type(torch.get_default_dtype())).numpy()
            amp_p = np.exp(np.clip(np.abs(log_q_f[:m] - base_f) / max(1, prop.rescaled_dims), 0, 60))
            fin &= (1e-7 * amp_p) < 1e-4
            if len(log_q) != len(log_q_f):
                # duplicating reparameterisations return both images when mapped forwards
                fin &= True
            d = np.abs(a[fin] - b[fin])
            if fin.any() and np.any(d > 2e-3 * (1 + np.abs(b[fin]))):
                i = int(np.argmax(d))
                errs.append((f"density-attached-to-generated-point!=density-of-that-point-passed-forwards:{label}", f"{a[fin][i]!r} vs {b[fin][i]!r} (latent-prior correction {corr[fin][i]!r})"))
            dz = np.abs(z_f[:m][fin] - z_kept[:m][fin]).max() if fin.any() else 0.0
            if dz > 5e-3 * (1 + np.abs(z_kept).max()):
                errs.append((f"forward(backward(z))!=z:{label}", f"max diff {dz!r}"))
            if not np.all(model.in_bounds(x)):
                errs.append((f"generated-point-outside-prior-bounds:{label}", ""))
        # far out in the latent space the generated points crowd the prior bounds (logit / rescaling
        # edges): in float64 the two densities must still agree there
        if cfg["latent_prior"] in ("truncated_gaussian", "gaussian") and cfg["ftype"] == "realnvp":
            from nessai.utils.torchutils import set_torch_default_dtype

            set_torch_default_dtype("float64")
            torch.manual_seed(3)
            np.random.seed(3)
            prop2 = FlowProposal(
                model, output=out + "_64", poolsize=50, plot=False, latent_prior=cfg["latent_prior"], constant_volume_mode=cv,
                reparameterisations=cfg["reparameterisations"],
                flow_config=dict(runs.FLOW_TINY, n_neurons=8, ftype=cfg["ftype"]), training_config=dict(runs.TRAIN_TINY),
            )
            prop2.initialise()
            prop2.train(live, plot=False)
            prop2.r = 2.0
            prop2.alt_dist = prop2.get_alt_distribution()
            rs_ = np.random.RandomState(11)
            zdir = rs_.randn(120, prop2.rescaled_dims)
            zdir /= np.linalg.norm(zdir, axis=1, keepdims=True)
            for radius in (1.0, 4.0, 8.0, 14.0, 22.0, 35.0):
                zz = zdir * radius
                with np.errstate(all="ignore"):
                    x2, lq2, zk2 = prop2.backward_pass(zz, rescale=True, return_z=True)
                    if len(x2) == 0:
                        continue
                    zf2, lqf2 = prop2.forward_pass(x2, rescale=True, compute_radius=False)
                n += 1
                if len(lqf2) != len(lq2):
                    continue
                with torch.no_grad():
                    base2 = prop2.flow.model.base_distribution_log_prob(torch.from_numpy(zf2).type(torch.get_default_dtype())).numpy()
                amp2 = np.exp(np.clip(np.abs(lqf2 - base2) / max(1, prop2.rescaled_dims), 0, 200))
                # conditioning of the reparameterisation itself: a point whose distance to a prior
                # bound is only a few ulps cannot be mapped forwards accurately (1 - u is quantised)
                ucoord = np.stack([(x2[nm_] - model.bounds[nm_][0]) / (model.bounds[nm_][1] - model.bounds[nm_][0]) for nm_ in model.names], axis=1)
                well = np.min(np.minimum(ucoord, 1 - ucoord), axis=1) > 1e-11
                ok2 = np.isfinite(lq2) & np.isfinite(lqf2) & ((2.2e-16 * amp2) < 1e-6) & well
                if ok2.any():
                    d2 = np.abs(lq2[ok2] - lqf2[ok2])
                    if np.any(d2 > 1e-3 * (1 + np.abs(lqf2[ok2]))):
                        i2 = int(np.argmax(d2))
                        errs.append((f"float64:density-attached-to-generated-point!=density-of-that-point-passed-forwards:{label}", f"latent radius {radius}: {lq2[ok2][i2]!r} vs {lqf2[ok2][i2]!r} at x={x2[ok2][i2]!r}"))
                        break
                    dz2 = np.abs(zf2[ok2] - zk2[ok2]).max()
                    if dz2 > 1e-3 * (1 + radius):
                        errs.append((f"float64:forward(backward(z))!=z:{label}", f"latent radius {radius}: max diff {dz2!r}"))
                        break
            shutil.rmtree(out + "_64", ignore_errors=True)
    except Exception as e:
        import traceback

        errs.append((f"raises-{type(e).__name__}:{label}", f"{e} | {traceback.format_exc()[-300:]}"))
    finally:
        shutil.rmtree(out, ignore_errors=True)
        shutil.rmtree(out + "_64", ignore_errors=True)
    seen, viol = set(), []
    for k, dd_ in errs:
        if k not in seen:
            seen.add(k)
            viol.append((k, dd_, {"mode": "proposal", "cfg": cfg}))
    return dict(label=label, errs=viol, rejected=None, n=n)


def ins_proposal_worker(cfg):
    """ImportanceFlowProposal: densities returned by draw() equal compute_meta_proposal_samples()."""
    res = runs.run_ins_case(cfg, want=("c03",))
    errs = [(f"ins:{c}", d, {"mode": "ins", "cfg": cfg}) for c, d in res["errs"][:2]]
    return dict(label=runs.cfg_key(cfg), errs=errs, rejected=res.get("rejected_up_front"), n=res["iterations"])


BATCH_SIZES = [1, 2, 1000, 1001, 49_999, 50_001, 99_999, 100_001, 130_003, 262_145]


def _rows(N):
    """Rows of an N-row call that are re-evaluated alone: both ends, the middle and both sides of every
    round multiple of 1000 x 2^k that an implementation may cut a batch at."""
    marks = {0, 1, 2, N // 2, N - 3, N - 2, N - 1}
    for b in (1000, 2000, 4096, 10_000, 16_384, 50_000, 65_536, 100_000, 131_072, 200_000, 250_000):
        marks |= {b - 1, b, b + 1}
    return sorted(i for i in marks if 0 <= i < N)


def batch_worker(cfg):
    """The density attached to a point does not depend on how many other points are evaluated in
    the same call (an implementation is free to cut a large call into batches)."""
    import torch
    from nessai.livepoint import numpy_array_to_live_points

    runs.reset_globals()
    errs = []
    label = f"batch:{cfg['kind']}"
    out = runs.scratch("c08b")
    n = 0
    try:
        torch.manual_seed(3)
        np.random.seed(3)
        rng_ = np.random.default_rng(11)
        if cfg["kind"] == "ins":
            from nessai.flowsampler import FlowSampler

            model = make("G2")
            fs = FlowSampler(model, output=out, resume=False, **runs.ins_base(cfg["seed"], max_iteration=2))
            fs.run(plot=False, save=False)
            prop = fs.ns.proposal

            def evaluate(u):
                pts = numpy_array_to_live_points(u, model.names)
                logQ, log_q = prop.compute_meta_proposal_samples(pts)
                return np.column_stack([logQ, log_q])

            def draw(N):
                return rng_.random((N, 2)) * 0.98 + 0.01
        else:
            from nessai.proposal.flowproposal import FlowProposal

            model = make("G2")
            prop = FlowProposal(model, output=out, poolsize=50, plot=False, flow_config=dict(runs.FLOW_TINY, n_neurons=8), training_config=dict(runs.TRAIN_TINY))
            prop.initialise()
            live = model.new_point(100)
            live["logP"] = model.log_prior(live)
            live["logL"] = model.log_likelihood(live)
            prop.train(live, plot=False)

            def evaluate(x):
                pts = numpy_array_to_live_points(x, model.names)
                z, log_q = prop.forward_pass(pts, rescale=True, compute_radius=False)
                return np.column_stack([log_q, z])

            def draw(N):
                return rng_.random((N, 2)) * 9.0 - 4.5
        for N in BATCH_SIZES if not cfg.get("quick") else [s_ for s_ in BATCH_SIZES if s_ in (1, 1001, 100_001, 130_003)]:
            x = draw(N)
            x0 = x.tobytes()
            full = evaluate(x)
            if x.tobytes() != x0:
                errs.append((f"evaluation-modifies-its-input:{label}", f"N={N}"))
            n += 1
            if full.shape[0] != N:
                errs.append((f"one-density-per-point:{label}", f"N={N}: {full.shape[0]} rows"))
                continue
            idx = _rows(N)
            alone = np.concatenate([evaluate(x[i : i + 1].copy()) for i in idx[:: max(1, len(idx) // 24)]] , axis=0)
            few = evaluate(x[idx].copy())
            pick = idx[:: max(1, len(idx) // 24)]
            for name, ref, rows in (("alone", alone, pick), ("in-a-small-call", few, idx)):
                a, b = full[rows], ref
                with np.errstate(invalid="ignore"):
                    bad = ~((a == b) | (np.abs(a - b) <= 2e-4 * (1 + np.abs(b))))
                if bad.any():
                    r = int(np.argwhere(bad)[0][0])
                    errs.append((f"density-of-a-point-depends-on-the-size-of-the-call:{label}", f"N={N}, row {rows[r]}: {a[r].tolist()} in the full call vs {b[r].tolist()} {name}"))
                    break
    except Exception as e:
        errs.append((f"harness-or-library-raises-{type(e).__name__}:{label}", str(e)[:300]))
    finally:
        shutil.rmtree(out, ignore_errors=True)
    seen, viol = set(), []
    for k, dd_ in errs:
        if k not in seen:
            seen.add(k)
            viol.append((k, dd_, {"mode": "batch", "cfg": cfg}))
    return dict(label=label, errs=viol, rejected=None, n=n)


def _dispatch(x):
    kind, cfg = x
    return {"flow": flow_worker, "proposal": proposal_worker, "ins": ins_proposal_worker, "batch": batch_worker}[kind](cfg)


def run(ctx):
    items = [("flow", c) for c in flow_lattice(ctx.quick)] + [("proposal", c) for c in proposal_lattice(ctx.quick)]
    for rp in ("logit", None):
        for ft in ("realnvp", "maf", "nsf"):
            items.append(("ins", {"kind": "ins", "model": "G2", "seed": ctx.seed, "kwargs": {"reparameterisation": rp, "flow_config": {"ftype": ft}, "max_iteration": 2}, "resume": "none"}))
    # priors that vanish inside the bounding box / are not flat in the hypercube: draws are
    # filtered after the densities were computed, the rows must stay attached to their samples
    for mdl in ("G2cut", "G2tilt", "G2hole"):
        for rp in ("logit", None):
            items.append(("ins", {"kind": "ins", "model": mdl, "seed": ctx.seed, "kwargs": {"reparameterisation": rp, "max_iteration": 2}, "resume": "none"}))
    # the density of a point does not depend on the number of points in the call (1 ... 262 145)
    items.append(("batch", {"kind": "ins", "seed": ctx.seed, "quick": ctx.quick}))
    items.append(("batch", {"kind": "std", "seed": ctx.seed, "quick": ctx.quick}))
    rejected = []
    labels = set()
    for (kind, cfg), res in ctx.pmap(_dispatch, items):
        ctx.count("evaluations", max(1, res["n"]))
        labels.add(res["label"])
        if res.get("rejected"):
            rejected.append(f"{res['label']}: {res['rejected']}")
        for v in res["errs"]:
            ctx.violation(*v)
    ctx.set("distinct_nontrivial", len(labels))
    ctx.set("rejected_up_front", rejected)
    ctx.set("rule", "flow lattice: 21 single deviations of the flow configuration (type, linear transform, batch norm / actnorm, mask, net, base distribution, depth, activation) x dims {2,4} x dtype {float32,float64} x weight state {fresh, trained 5 epochs, reset_weights, reset_permutations} (thorough adds the 3x4x2 product of type x linear transform x batch norm); points: 7^d grid on [-3,3]^d + 64 own samples; 2-D quadrature on a 401x401 grid adapted to the flow's own samples. Proposal lattice: latent prior x reparameterisation x flow type for FlowProposal; logit/None x flow type for the importance proposal, plus models with a cut prior, a tilted hypercube prior and a zero-likelihood region. Call-size invariance: both proposals evaluate calls of 1 ... 262 145 points (quick: 1, 1001, 100 001, 130 003) and the rows at both ends, the middle and around every round batch boundary are re-evaluated alone and in a small call. Distinct/non-trivial: distinct configurations")
    ctx.set("exhaustive", True)
    ctx.sample({"flow": items[5][1]["flow"], "weights": items[5][1]["weights"], "dtype": items[5][1]["dtype"]})
    ctx.assume(
        "tolerances by floating-point type: 2e-4 (float32) / 1e-9 (float64), scaled by the local contraction of the map for round trips",
        "quadrature accepts [0.90, 1.05]: rectangle rule on +-12 robust widths; skipped when the flow's own samples are degenerate (robust width < 1e-6: untrained batch norm has zero running variance) and for the lars base distribution (normaliser is itself a Monte-Carlo estimate)",
    )


def replay(ctx, data):
    res = _dispatch((data["mode"], data["cfg"]))
    return [v[1] or v[0] for v in res["errs"]]
