"""C20 - every algorithmic option runs to completion or is rejected up front.

Deviation-bounded exploration of the option alphabet (DESIGN.md appendix A):
every documented value alone (deviation 1) on 2- and 3-parameter models and two
seeds, and a pairwise covering array (deviation 2, thorough).  Every run is
bounded by a draw-count cap on each population loop and a wall-clock backstop;
a finished run must satisfy the C05 result oracle.
"""
import copy
import itertools
import signal

import numpy as np

from mc import core, runs
from mc.tinymodels import make

LEVEL = "exploration"


class DrawCap(BaseException):
    pass


class WallClock(BaseException):
    pass


INVALID = "!"

# (option name, list of values); a value written ("!", v) is deliberately invalid
STD_OPTIONS = [
    ("flow_proposal_class", [None, "flowproposal", "augmentedflowproposal", "gwflowproposal", "augmentedgwflowproposal", "clusteringflowproposal", "clusteringgwflowproposal", "CLASS", ("!", "nope")]),
    # plotting is an option like any other: the plotting paths run inside training / population
    ("plotting", [("plot", True), ("plot", "min"), ("plot", "all"), ("plot", "train")]),
    ("plotting+class", [("plotcls", "augmentedflowproposal"), ("plotcls", "clusteringflowproposal"), ("plotcls", "gwflowproposal")]),
    ("augment_dims", [("aug", 1), ("aug", 2)]),
    ("generate_augment", [("aug", "gaussian"), ("aug", "zeros")]),
    ("marginalise_augment", [("aug", True)]),
    ("flow_config<deprecated-layout>", [("oldcfg", {"max_epochs": 5, "patience": 5, "batch_size": 100}), ("oldcfg", {"n_blocks": 2, "n_neurons": 4, "n_layers": 1, "lr": 0.002, "max_epochs": 5, "patience": 5}), ("oldcfg", {"model_config": {"n_blocks": 2, "n_neurons": 4, "n_layers": 1}, "max_epochs": 5, "patience": 5})]),
    ("flow_config.ftype", ["realnvp", "maf", "nsf", ("!", "xyz")]),
    ("flow_config.linear_transform", [None, "permutation", "lu", "svd", ("!", "foo")]),
    ("flow_config.batch_norm_between_layers", [True]),
    ("flow_config.net", ["resnet", "mlp"]),
    ("flow_config.activation", ["relu", "tanh", "swish", ("!", "foo")]),
    ("flow_config.distribution", [None, "mvn", "lars", ("!", "bar")]),
    ("flow_config.n_neurons", ["auto", "half", "equal", 8]),
    ("flow_config.mask", [[1, 0], np.array([1, 0])]),
    ("flow_config.pre_transform", [None, "batch_norm"]),
    ("flow_config.n_blocks", [1, 3]),
    ("training_config.lr", [0.01]),
    ("training_config.batch_size", ["all", 100, 7]),
    ("training_config.val_size", [0, 0.1, 0.5]),
    ("training_config.max_epochs", [1, 5]),
    ("training_config.annealing", [True]),
    ("training_config.clip_grad_norm", [0, 5]),
    ("training_config.noise", [("noise", "constant"), ("noise", "adaptive")]),
    ("training_config.optimiser", ["adam", "adamw", "sgd", ("!", "foo")]),
    ("training_config.use_dataloader", [True]),
    ("latent_prior", ["truncated_gaussian", ("cv0", "gaussian"), ("cv0", "uniform"), "uniform_nsphere", "uniform_nball", ("cv0", "flow"), ("!", "x")]),
    ("constant_volume_mode", [True, False]),
    ("volume_fraction", [0.5, 0.95, 0.99]),
    ("fuzz", [("cv0", 1.5)]),
    ("expansion_fraction", [("cv0", None), ("cv0", 1), ("cv0", 4)]),
    ("fixed_radius", [("cv0", 2.0)]),
    ("min_radius", [("cv0", 0.5)]),
    ("max_radius", [False, 1, 50]),
    ("compute_radius_with_all", [("cv0", True)]),
    ("truncate_log_q", [True]),
    ("accumulate_weights", [True]),
    ("check_acceptance", [True]),
    ("poolsize", [10, 50, 200]),
    ("drawsize", [None, 7, 500]),
    ("update_poolsize", [True, False]),
    ("max_poolsize_scale", [1, 10]),
    ("reparameterisations", [None, "default", "rescaletobounds", "rescale", "scale", "zscore", "logit", "null", "inversion", "inversion-duplicate", ("angle", "angle"), {"x0": "inversion", "x1": "rescaletobounds"}, {"x0": {"reparameterisation": "rescaletobounds", "update_bounds": False}}, {"rescaletobounds": {"parameters": ["x.*"]}},
        {"x0": {"reparameterisation": "rescaletobounds", "post_rescaling": "logit"}},
        {"x0": {"reparameterisation": "rescaletobounds", "post_rescaling": "logit", "update_bounds": False}},
        {"x0": {"reparameterisation": "logit", "update_bounds": True}},
        {"x0": {"reparameterisation": "rescaletobounds", "offset": True}},
        {"x0": {"reparameterisation": "rescaletobounds", "boundary_inversion": True, "detect_edges": True, "inversion_type": "duplicate"}},
        {"x0": {"reparameterisation": "rescaletobounds", "rescale_bounds": [0.0, 1.0], "prior": "uniform"}},
        ("!", "unknown-name")]),
    ("fallback_reparameterisation", [None, "zscore", "default"]),
    ("reverse_reparameterisations", [True]),
    ("use_default_reparameterisations", [True, False]),
    ("reset_weights", [False, True, 2, ("!", "x")]),
    ("reset_permutations", [False, True, 2, ("!", "x")]),
    ("reset_flow", [False, True, 2, ("!", "x")]),
    ("reset_acceptance", [True]),
    ("retrain_acceptance", [True, False]),
    ("acceptance_threshold", [0.01, 0.5]),
    ("training_frequency", [None, 10, "inf"]),
    ("train_on_empty", [True, False]),
    ("cooldown", [1, 20, 200]),
    ("memory", [False, 20]),
    ("maximum_uninformed", [None, False, 0, 10, 1e9]),
    ("uninformed_acceptance_threshold", [None, 0.5]),
    ("analytic_priors", [("ramp", True)]),
    ("prior_sampling", [True]),
    ("shrinkage_expectation", ["t", "logt", "LogT", "T", "LOGT", ("!", "x")]),
    ("stopping", [0.1, 2]),
    ("max_iteration", [None, 5]),
    ("run.posterior_sampling_method", ["rejection_sampling", "multinomial_resampling", "importance_sampling", ("!", "x")]),
    ("torch_dtype", [None, "float32", "float64", ("!", "x")]),
]

INS_OPTIONS = [
    ("plotting", [("insplot", {}), ("insplot", {"plotting_frequency": 1, "plot_pool": True, "plot_level_cdf": True, "plot_training_data": True, "plot_extra_state": True}), ("insplot", {"plot_trace": False, "plot_likelihood_levels": False})]),
    ("reparameterisation", ["logit", None, ("!", "x")]),
    ("weighted_kl", [True, False]),
    ("reset_flow", [True, False, 2]),
    ("clip", [True]),
    ("n_initial", [None, 30]),
    ("min_samples", [1, 10, 50, ("!", 51)]),
    ("min_remove", [1, 5, ("!", 51)]),
    ("max_samples", [None, 60, 120]),
    ("n_update", [None, 10]),
    ("replace_all", [True]),
    ("strict_threshold", [True]),
    ("draw_constant", [True, False]),
    ("draw_iid_live", [True, False]),
    ("save_log_q", [True]),
    ("threshold_method", ["entropy", "quantile", "Entropy", "QUANTILE", ("!", "x")]),
    ("threshold_kwargs", [{"q": 0.2}, {"q": 0.5}, {"q": 0.8}, {"q": 0.5, "include_likelihood": True}, ("entropy", {"use_log_weights": False})]),
    ("stopping_criterion", ["ratio", "ratio_all", "ratio_ns", "Z_err", "evidence_error", "log_dZ", "log_evidence", "ess", "fractional_error", ("!", "unknown")]),
    ("stopping_pairs", [("pair", ("ess", "ratio")), ("pair", ("log_dZ", "Z_err")), ("pair-bad", ("ess", "ratio"))]),
    ("check_criteria", ["any", "all", ("!", "x")]),
    ("min_iteration", [2]),
    ("max_iteration", [1, 4]),
    ("train_final_flow", [True]),
    ("bootstrap", [True]),
    ("run.redraw_samples", [True, ("redraw", {"n_posterior_samples": 20}), ("redraw", {"use_counts": True}), ("redraw", {"optimise_weights": True, "optimisation_method": "kl"}), ("redraw", {"optimise_weights": True, "optimisation_method": "evidence"})]),
    ("run.compute_initial_posterior", [("redraw", {"compute_initial_posterior": True})]),
    ("run.posterior_sampling_method", ["rejection_sampling", "multinomial_resampling", "importance_sampling", ("!", "x")]),
    ("flow_config<deprecated-layout>", [("oldcfg", {"max_epochs": 5, "patience": 5, "batch_size": 100}), ("oldcfg", {"model_config": {"n_blocks": 2, "n_neurons": 4, "n_layers": 1}, "max_epochs": 5, "patience": 5})]),
    ("flow_config.ftype", ["realnvp", "maf", "nsf", ("!", "xyz")]),
    ("flow_config.linear_transform", [None, "lu"]),
    ("flow_config.batch_norm_between_layers", [True]),
    ("flow_config.distribution", ["mvn", "lars"]),
    ("training_config.batch_size", ["all", 7]),
    ("training_config.val_size", [0, 0.5]),
    ("training_config.optimiser", ["adam", "sgd"]),
    ("training_config.noise", [("noise", "constant")]),
    ("torch_dtype", ["float64"]),
    ("model", [("hole", None)]),
    ("n_initial<min_samples", [("nimin", (30, 50))]),
]


def build(kind, name, value):
    """Translate one (option, value) into (kwargs, run_kwargs, model, invalid?, label)."""
    kw, rkw, model, invalid = {}, {}, None, False
    tag = None
    if isinstance(value, tuple) and len(value) == 2 and value[0] in ("!", "plot", "plotcls", "insplot", "aug", "cv0", "noise", "angle", "ramp", "pair", "pair-bad", "redraw", "entropy", "hole", "nimin", "oldcfg"):
        tag, value = value
    if tag == "!":
        invalid = True
    if isinstance(value, str) and value == "CLASS":
        from nessai.proposal.flowproposal import FlowProposal

        value = FlowProposal
    label = f"{name}={value!r}"
    if tag == "plot":
        kw["plot"] = True
        kw["proposal_plots"] = value
        rkw["plot"] = True
    elif tag == "plotcls":
        kw["plot"] = True
        kw["proposal_plots"] = True
        kw["flow_proposal_class"] = value
        rkw["plot"] = True
        if "gw" in value:
            model = "GW5"
    elif tag == "insplot":
        kw["plot"] = True
        kw.update(value)
        rkw["plot"] = True
    elif tag == "aug":
        kw["flow_proposal_class"] = "augmentedflowproposal"
        kw[name] = value
    elif tag == "cv0":
        kw["constant_volume_mode"] = False
        kw[name] = value
    elif tag == "noise":
        kw["training_config"] = {"noise_type": value, "noise_scale": 0.1}
    elif tag == "angle":
        kw["reparameterisations"] = {"x0": {"reparameterisation": "angle", "scale": 1.0, "prior": None}}
    elif tag == "ramp":
        model = "G2ramp"
        kw[name] = value
    elif tag == "pair":
        kw["stopping_criterion"] = list(value)
        kw["tolerance"] = [10.0, 0.0]
    elif tag == "pair-bad":
        kw["stopping_criterion"] = list(value)
        kw["tolerance"] = [10.0]
        invalid = True
    elif tag == "redraw":
        rkw["redraw_samples"] = True
        rkw.update(value)
    elif tag == "entropy":
        kw["threshold_method"] = "entropy"
        kw["threshold_kwargs"] = value
    elif tag == "hole":
        model = "G2hole"
    elif tag == "nimin":
        kw["n_initial"], kw["min_samples"] = value
    elif tag == "oldcfg":
        # the deprecated (still documented, FutureWarning) layout: training keys inside flow_config
        kw["flow_config"] = dict(value)
        kw["training_config"] = None
    elif name == "reparameterisations" and isinstance(value, str) and value == "inversion-duplicate":
        kw[name] = {"x0": {"reparameterisation": "inversion", "detect_edges": False, "boundary_inversion": ["upper"], "inversion_type": "duplicate"}}
    elif name == "threshold_kwargs":
        kw["threshold_method"] = "quantile"
        kw[name] = value
    elif name.startswith("flow_config."):
        kw["flow_config"] = {name.split(".", 1)[1]: value}
    elif name.startswith("training_config."):
        kw["training_config"] = {name.split(".", 1)[1]: value}
    elif name.startswith("run."):
        rkw[name.split(".", 1)[1]] = value
    else:
        kw[name] = value
    if name.startswith("flow_proposal_class") and isinstance(value, str) and "gw" in value:
        model = "GW5"
    return kw, rkw, model, invalid, label


def merge(a, b):
    out = dict(a)
    for k, v in b.items():
        if k in ("flow_config", "training_config") and isinstance(v, dict) and isinstance(out.get(k), dict):
            out[k] = {**out[k], **v}
        else:
            out[k] = v
    return out


def cases(seed, quick, pairwise):
    out = []
    for kind, options in (("std", STD_OPTIONS), ("ins", INS_OPTIONS)):
        for name, values in options:
            for value in values:
                kw, rkw, model, invalid, label = build(kind, name, value)
                variants = [("G2", seed), ("G3", seed + 1)] if not quick else [("G2", seed)]
                for m, s in variants:
                    mm = model or m
                    if mm != m and m == "G3":
                        continue
                    out.append(dict(kind=kind, model=mm, seed=s, kwargs=kw, run_kwargs=rkw, resume="none", invalid=invalid, label=f"{kind}:{label}"))
    out += population_product(seed, quick)
    if pairwise:
        out += pairwise_cases(seed)
    return out


def population_product(seed, quick):
    """Deviation 3+ on the options that steer one mechanism (how the latent contour is drawn, when
    the flow is retrained, how the pool is sized): their full product - quick: the sub-lattice
    where the radius varies between populations of one flow, several seeds; thorough: everything."""
    import itertools

    out = []
    if quick:
        grid = [dict(latent_prior=lp, constant_volume_mode=False, train_on_empty=False) for lp in ("uniform_nsphere", "uniform_nball", "truncated_gaussian")]
        # a flow that is actually trained (every other run uses 5 epochs): log-q truncation and tiny draw
        # sizes only bite once the flow has learnt the contour
        trained = dict(nlive=50, poolsize=50, training_config={"max_epochs": 200, "patience": 200})
        grid += [dict(trained, truncate_log_q=True, drawsize=1), dict(trained, truncate_log_q=True), dict(trained, drawsize=1), dict(trained, truncate_log_q=True, drawsize=3, constant_volume_mode=False)]
        seeds = (seed, seed + 1, seed + 2, seed + 3)
    else:
        grid = []
        for lp, cvm, toe, acc, ups in itertools.product(("truncated_gaussian", "gaussian", "uniform", "uniform_nsphere", "uniform_nball", "flow"), (True, False), (True, False), (False, True), (True, False)):
            if cvm and lp in ("gaussian", "uniform", "flow"):
                continue  # constant-volume mode is defined for the radially truncated priors only
            grid.append(dict(latent_prior=lp, constant_volume_mode=cvm, train_on_empty=toe, accumulate_weights=acc, update_poolsize=ups))
        trained = dict(nlive=50, poolsize=50, training_config={"max_epochs": 200, "patience": 200})
        for tq, ds, cvm in itertools.product((True, False), (1, 2, 3, None), (True, False)):
            kw_ = dict(trained, truncate_log_q=tq, constant_volume_mode=cvm)
            if ds:
                kw_["drawsize"] = ds
            grid.append(kw_)
        seeds = tuple(seed + i for i in range(6))
    for kw in grid:
        for s_ in seeds:
            label = "std:population-product:" + ",".join(f"{k}={v}" for k, v in kw.items())
            out.append(dict(kind="std", model="G2", seed=s_, kwargs=dict(kw), run_kwargs={}, resume="none", invalid=False, label=label))
    return out


def pairwise_cases(seed):
    """Deviation 2: every pair of valid values of two different options, everything else at its
    default (explicit pairs rather than a covering array, so a failure is attributable to the pair)."""
    out = []
    skip = ("plotting", "plotting+class", "flow_proposal_class", "augment_dims", "generate_augment", "marginalise_augment", "model", "stopping_pairs", "run.redraw_samples", "run.compute_initial_posterior", "bootstrap", "train_final_flow", "prior_sampling", "n_initial<min_samples", "flow_config<deprecated-layout>")
    for kind, options in (("std", STD_OPTIONS), ("ins", INS_OPTIONS)):
        vals = []
        for name, values in options:
            for v in values:
                kw, rkw, model, invalid, label = build(kind, name, v)
                if invalid or model or name in skip:
                    continue
                if kind == "ins" and name == "reparameterisation" and v is None:
                    continue  # known finding (seed-dependent non-terminating draw)
                if kind == "ins" and name.startswith("flow_config.") and name != "flow_config.ftype":
                    continue  # INS validates its flow configuration late (known finding); explored on the standard sampler
                vals.append((name, kw, rkw, label))
        r = 0
        for (n1, k1, r1, l1), (n2, k2, r2, l2) in itertools.combinations(vals, 2):
            if n1 == n2:
                continue
            # two options writing the same keyword (e.g. both set constant_volume_mode) are one deviation
            if set(k1) & set(k2) - {"flow_config", "training_config"}:
                continue
            if "flow_config" in k1 and "flow_config" in k2 and set(k1["flow_config"]) & set(k2["flow_config"]):
                continue
            if "training_config" in k1 and "training_config" in k2 and set(k1["training_config"]) & set(k2["training_config"]):
                continue
            r += 1
            out.append(dict(kind=kind, model="G2", seed=seed + r % 2, kwargs=merge(k1, k2), run_kwargs={**r1, **r2}, resume="none", invalid=False, label=f"{kind}:{l1}+{l2}", pair_labels=[l1, l2]))
    return out


def worker_long(cfg):
    """Second opinion for a run stopped by the wall clock: alone, with a 15-minute bound, so that the
    deterministic draw / population bounds decide and not the load of the machine."""
    return worker(cfg, wall=900.0)


def worker(cfg, wall=120.0):
    from nessai.proposal.flowproposal import FlowProposal
    from nessai.proposal.importance import ImportanceFlowProposal
    from nessai.proposal.rejection import RejectionProposal
    from nessai.model import Model
    from nessai.samplers.nestedsampler import NestedSampler
    from nessai.samplers.importancesampler import ImportanceNestedSampler

    counters = dict(draws=0, started=False, finished_sampling=False)
    o_dlp = FlowProposal.draw_latent_prior
    o_pop = FlowProposal.populate
    o_idraw = ImportanceFlowProposal.draw
    o_mnp = Model._multiple_new_points
    o_np = Model.new_point
    o_spop, o_ipop = NestedSampler.populate_live_points, ImportanceNestedSampler.populate_live_points
    o_sloop, o_iloop = NestedSampler.nested_sampling_loop, ImportanceNestedSampler.nested_sampling_loop

    def dlp(self, n):
        counters["draws"] += 1
        nominal = max(1, int(np.ceil(self.poolsize / max(1, self.drawsize))))
        if counters["draws"] > 1000 * nominal + 2000:
            raise DrawCap(f"{counters['draws']} latent draws for one pool of {self.poolsize} (drawsize {self.drawsize})")
        return o_dlp(self, n)

    def pop(self, *a, **k):
        counters["draws"] = 0
        return o_pop(self, *a, **k)

    def spop(ns):
        counters["started"] = True
        counters["in_initial"] = True
        r = o_spop(ns)
        counters["in_initial"] = False
        return r

    def ipop(ns):
        counters["started"] = True
        return o_ipop(ns)

    def sloop(ns):
        r = o_sloop(ns)
        counters["finished_sampling"] = True
        return r

    def iloop(ns):
        r = o_iloop(ns)
        counters["finished_sampling"] = True
        return r

    FlowProposal.draw_latent_prior, FlowProposal.populate = dlp, pop
    NestedSampler.populate_live_points, ImportanceNestedSampler.populate_live_points = spop, ipop
    NestedSampler.nested_sampling_loop, ImportanceNestedSampler.nested_sampling_loop = sloop, iloop

    def on_alarm(signum, frame):
        raise WallClock(f"wall-clock bound ({wall:.0f} s) exceeded")

    old = signal.signal(signal.SIGALRM, on_alarm)
    signal.setitimer(signal.ITIMER_REAL, wall)
    runner = runs.run_standard_case if cfg["kind"] == "std" else runs.run_ins_case
    out = dict(label=cfg["label"], status=None, detail="", invalid=cfg["invalid"])
    try:
        res = runner(cfg, want=("c05",))
        if res.get("draw_cap"):
            raise DrawCap(res["draw_cap"])
        if res.get("rejected_up_front") or (res["errs"] and not counters["started"] and res["errs"][0][0].startswith("run-raises")):
            out["status"] = "rejected-up-front"
            out["detail"] = str(res.get("rejected_up_front") or res["errs"][0])[:200]
        elif res["errs"]:
            c, d = res["errs"][0]
            phase = "after-sampling-finished" if counters["finished_sampling"] else "during-sampling"
            out["status"] = f"fails-{phase}" if c.startswith("run-raises") else "invalid-result"
            out["detail"] = f"{c}: {d}"[:600]
        else:
            out["status"] = "completed"
    except DrawCap as e:
        out["status"] = "population-does-not-terminate"
        out["detail"] = str(e)
        out["phase"] = "initial-live-points" if counters.get("in_initial") else "sampling"
    except WallClock as e:
        out["status"] = "wall-clock"
        out["detail"] = str(e)
    finally:
        signal.setitimer(signal.ITIMER_REAL, 0)
        signal.signal(signal.SIGALRM, old)
        FlowProposal.draw_latent_prior, FlowProposal.populate = o_dlp, o_pop
        NestedSampler.populate_live_points, ImportanceNestedSampler.populate_live_points = o_spop, o_ipop
        NestedSampler.nested_sampling_loop, ImportanceNestedSampler.nested_sampling_loop = o_sloop, o_iloop
    return out


def run(ctx):
    cs = cases(ctx.seed, ctx.quick, pairwise=not ctx.quick)
    stats = {}
    results = list(ctx.pmap(worker, cs))
    # a run stopped by the wall clock says nothing by itself (the machine may be loaded): it is run
    # again with few neighbours and a 15-minute bound; the deterministic bounds decide
    slow = [cfg for cfg, res in results if res["status"] == "wall-clock"]
    if slow:
        again = {c["label"]: r for c, r in ctx.pmap(worker_long, slow, nproc=4)}
        results = [(cfg, again.get(cfg["label"], res) if res["status"] == "wall-clock" else res) for cfg, res in results]
        ctx.set("runs_repeated_after_wall_clock", len(slow))
    # accepted options must also survive an interruption: every single-option run that completed is
    # run again, killed at its first checkpoint and resumed with the same keyword arguments
    single = [cfg for cfg, res in results if res["status"] == "completed" and not cfg["invalid"] and "+" not in cfg["label"] and ":population-product:" not in cfg["label"]]
    resumed = [dict(cfg, kill_at=(1,), label=cfg["label"] + "+killed-at-first-checkpoint-and-resumed") for cfg in single]
    res2 = list(ctx.pmap(worker, resumed))
    slow2 = [cfg for cfg, res in res2 if res["status"] == "wall-clock"]
    if slow2:
        again = {c["label"]: r for c, r in ctx.pmap(worker_long, slow2, nproc=4)}
        res2 = [(cfg, again.get(cfg["label"], res) if res["status"] == "wall-clock" else res) for cfg, res in res2]
    ctx.set("runs_repeated_with_an_interruption", len(res2))
    results += res2
    for cfg, res in results:
        ctx.count("evaluations")
        stats[res["status"]] = stats.get(res["status"], 0) + 1
        if res["status"] in ("completed", "rejected-up-front"):
            continue
        label = cfg["label"]
        kwc = cfg.get("kwargs", {})
        if res["status"] == "population-does-not-terminate" and kwc.get("accumulate_weights") and kwc.get("constant_volume_mode") is False:
            # one underlying input: weight accumulation with a non-constant-volume (inflated) latent contour
            label = "std:accumulate_weights=True+constant_volume_mode=False(+any radius option)"
        if res["status"] == "population-does-not-terminate" and res.get("phase") == "initial-live-points" and kwc.get("maximum_uninformed") is not None and not kwc.get("maximum_uninformed"):
            # (False is stored as 0 by the sampler - `elif not maximum_uninformed: self.maximum_uninformed = 0` - the same input)
            # one underlying input: with maximum_uninformed=0 the INITIAL live points are drawn from the
            # untrained flow proposal, whose (collapsed) output may lie outside the prior bounds
            label = "std:maximum_uninformed=0(+any option): initial live points drawn from the untrained flow"
        if res["status"] == "population-does-not-terminate" and cfg["kind"] == "ins" and "reparameterisation" in kwc and kwc["reparameterisation"] is None and "ImportanceFlowProposal.draw" in res["detail"]:
            # one underlying input: without a reparameterisation a trained flow can put all of its mass outside
            # the unit hypercube and ImportanceFlowProposal.draw has no bound (which level / seed / leg of an
            # interrupted run meets it depends on the random stream)
            label = "ins:reparameterisation=None"
        ctx.violation(f"{res['status']}@{label}", f"{res['status']}: {res['detail']} (model {cfg['model']}, seed {cfg['seed']})", {"cfg": {k: v for k, v in cfg.items() if k != 'kwargs' or True}})
    ctx.set("outcomes", stats)
    ctx.set("distinct_nontrivial", len({c["label"] for c in cs}))
    ctx.set("rule", "every value of every option of the alphabet on its own (deviation 1) for both samplers on G2 (quick) / G2 and G3 with two seeds (thorough), plus every pair of valid values of two different options (thorough), plus the product of the options that steer the latent contour / retraining / pool size over several seeds (quick: the sub-lattice where the radius varies between populations of one flow). Every single-option run that completed is repeated with a kill at its first checkpoint followed by a resume with the same keyword arguments. Each run is classified: rejected before the first live point is drawn / completed and passing the C05 oracle / failing during sampling / failing after sampling / population loop exceeding 1000x its nominal number of latent draws / wall clock (120 s in the parallel sweep; a run stopped by it is repeated with few neighbours and a 900 s bound, and only that outcome counts). Distinct/non-trivial: distinct option assignments")
    ctx.set("exhaustive", True)
    ctx.sample({"case": cs[3]["label"], "kwargs": str(cs[3]["kwargs"])})
    ctx.assume(
        "deliberately invalid values may either be rejected up front or be accepted and complete with a valid result",
        "draw-count bound: 1000 x ceil(poolsize/drawsize) + 2000 latent draws per population; wall-clock backstop 120 s (nominal run 0.3-2 s)",
    )


def replay(ctx, data):
    res = worker(data["cfg"])
    return [] if res["status"] in ("completed", "rejected-up-front") else [f"{res['status']}: {res['detail']}"]
