"""C10 - batched, chunked and pooled evaluation equals pointwise evaluation, once.

Full grid n x chunksize x pool x vectorised x return shape x function on the
real `Model.batch_evaluate_*` entry points with an exactly rounded likelihood
(bitwise oracle), plus every completion order of a controllable in-process
pool (E2) and real fork pools for a sub-grid.
"""
import itertools
import multiprocessing

import numpy as np

LEVEL = "exploration"


_MODEL_CLASS = []


def make_model(ret, vectorisable):
    """ret: how a single-point call answers: 'float' | '0d' | 'shape1' | 'arr'.

    ONE class for every instance (the flags are instance attributes): anything nessai remembers
    per class or per function instead of per instance leaks from one model to the next."""
    if not _MODEL_CLASS:
        _MODEL_CLASS.append(_model_class())
    m = _MODEL_CLASS[0]()
    m._ret, m._vectorisable = ret, vectorisable
    return m


def _model_class():
    from nessai.model import Model

    class M(Model):
        _ret, _vectorisable = "float", True

        def __init__(self):
            self.names = ["x0", "x1"]
            self.bounds = {"x0": [-4.0, 4.0], "x1": [-2.0, 6.0]}
            self.seen = {"log_likelihood": [], "log_prior": [], "log_prior_unit_hypercube": []}
            self.recording = False

        def _rec(self, name, x):
            if self.recording:
                self.seen[name].append(np.atleast_1d(x).copy())

        def _shape(self, v, x):
            ret, vectorisable = self._ret, self._vectorisable
            if np.ndim(x) == 0 or (vectorisable is False):
                if not vectorisable and np.size(x) != 1:
                    raise TypeError("only single points")
                v = np.asarray(v).reshape(-1)[0] if np.size(v) == 1 else v
                if ret == "float":
                    return float(v)
                if ret == "0d":
                    return np.array(float(v))
                if ret == "shape1":
                    return np.array([float(v)])
            return v

        def log_likelihood(self, x):
            self._rec("log_likelihood", x)
            v = x["x0"] * x["x0"] * (-0.5) + x["x1"] * x["x1"] * (-0.125) + x["x0"] * 0.25
            return self._shape(v, x)

        def log_prior(self, x):
            self._rec("log_prior", x)
            v = x["x0"] * 0.5 + x["x1"] * x["x1"] * (-0.0625)
            v = np.where((x["x0"] < -4.0) | (x["x0"] > 4.0) | (x["x1"] < -2.0) | (x["x1"] > 6.0), -np.inf, v)
            return self._shape(v, x)

        def log_prior_unit_hypercube(self, x):
            self._rec("log_prior_unit_hypercube", x)
            v = x["x0"] * 0.0 + x["x1"] * 0.0
            v = np.where((x["x0"] < 0) | (x["x0"] >= 1) | (x["x1"] < 0) | (x["x1"] >= 1), -np.inf, v)
            return self._shape(v, x)

        def from_unit_hypercube(self, x):
            out = x.copy()
            out["x0"] = 8.0 * x["x0"] + (-4.0)
            out["x1"] = 8.0 * x["x1"] + (-2.0)
            return out

        def to_unit_hypercube(self, x):
            out = x.copy()
            out["x0"] = (x["x0"] + 4.0) * 0.125
            out["x1"] = (x["x1"] + 2.0) * 0.125
            return out

    return M


def points(n, unit):
    from nessai.livepoint import numpy_array_to_live_points

    i = np.arange(n, dtype=float)
    if unit:
        a = np.stack([(i * 7 % 16) / 16.0, (i * 5 % 32) / 32.0], axis=1).reshape(n, 2)
        if n > 2:
            a[2, 0] = 1.0  # outside [0, 1)
    else:
        a = np.stack([-4.0 + 0.25 * (i * 7 % 33), -2.0 + 0.125 * (i * 11 % 65)], axis=1).reshape(n, 2)
        if n > 3:
            a[3, 1] = 6.5  # outside the bounds
    x = numpy_array_to_live_points(a, ["x0", "x1"])
    x["it"] = np.arange(n)
    return x


class FakePool:
    """Controllable in-process pool: runs the submitted tasks in the order given
    by `perm` and - like multiprocessing.Pool.map - returns in submission order.
    The unordered variant yields in execution order."""

    def __init__(self, processes, perm_id=0, sized=True):
        if sized:
            self._processes = processes
        self.perm_id = perm_id
        self.n_tasks = []

    def _order(self, n):
        if n <= 1:
            return list(range(n))
        if n <= 4:
            perms = list(itertools.permutations(range(n)))
            return list(perms[self.perm_id % len(perms)])
        k = self.perm_id % (n + 1)
        if k == n:
            return list(range(n))[::-1]
        return list(range(k, n)) + list(range(k))

    @staticmethod
    def n_orders(n):
        if n <= 1:
            return 1
        if n <= 4:
            return len(list(itertools.permutations(range(n))))
        return n + 1

    def _run(self, func, tasks, star=False):
        tasks = list(tasks)
        self.n_tasks.append(len(tasks))
        order = self._order(len(tasks))
        res = {}
        for i in order:
            res[i] = func(*tasks[i]) if star else func(tasks[i])
        return order, res

    def map(self, func, iterable, chunksize=None):
        order, res = self._run(func, iterable)
        return [res[i] for i in range(len(res))]

    def starmap(self, func, iterable, chunksize=None):
        order, res = self._run(func, iterable, star=True)
        return [res[i] for i in range(len(res))]

    def imap(self, func, iterable, chunksize=1):
        return iter(self.map(func, iterable))

    def imap_unordered(self, func, iterable, chunksize=1):
        order, res = self._run(func, iterable)
        return iter([res[i] for i in order])

    def close(self):
        pass

    def join(self):
        pass

    def terminate(self):
        pass


def reference(model, x, fn, unit):
    """Pointwise evaluation, one point at a time, on a separate model instance."""
    xx = model.from_unit_hypercube(x) if unit else x
    f = getattr(model, fn)
    return np.array([np.asarray(f(xx[i])).reshape(-1)[0] for i in range(len(xx))], dtype="f8"), xx


def one_case(n, chunksize, pool_kind, vectorisable, vec_setting, ret, fn, unit, par_prior, perm_id, errs):
    """Returns (ran, n_orders)"""
    from nessai.utils.multiprocessing import initialise_pool_variables

    model = make_model(ret, vectorisable)
    refm = make_model("float", True)
    x = points(n, unit or fn == "log_prior_unit_hypercube")
    model.likelihood_chunksize = chunksize
    model.parallelise_prior = par_prior
    pool = None
    if pool_kind is not None:
        kind, k = pool_kind
        pool = FakePool(k, perm_id=perm_id, sized=(kind == "sized"))
        initialise_pool_variables(model)
        model.configure_pool(pool=pool)
    if vec_setting == "explicit":
        model.vectorised_likelihood = vectorisable
        model.vectorised_prior = vectorisable
        model.vectorised_prior_unit_hypercube = vectorisable
    else:
        np.random.seed(3)
    before = x.copy()
    cnt0 = model.likelihood_evaluations
    # force the (lazy) vectorisation detection before recording
    if fn == "log_likelihood":
        model.vectorised_likelihood
    elif fn == "log_prior":
        model.vectorised_prior
    else:
        model.vectorised_prior_unit_hypercube
    cnt0 = model.likelihood_evaluations
    model.recording = True
    txt = f"n={n} chunksize={chunksize} pool={pool_kind} perm={perm_id} vectorisable={vectorisable} detect={vec_setting} ret={ret} fn={fn} unit_hypercube={unit} parallelise_prior={par_prior}"
    try:
        if fn == "log_likelihood":
            out = model.batch_evaluate_log_likelihood(x, unit_hypercube=unit)
        elif fn == "log_prior":
            out = model.batch_evaluate_log_prior(x, unit_hypercube=unit)
        else:
            out = model.batch_evaluate_log_prior_unit_hypercube(x)
    except Exception as e:
        errs.append((f"raises-{type(e).__name__}:{fn}", f"{e} {txt}"))
        return 1
    model.recording = False
    ref, xx = reference(refm, x, fn, unit)
    out = np.asarray(out)
    if out.shape != (n,):
        errs.append((f"shape:{fn}", f"{out.shape} {txt}"))
        return 1
    if out.astype("f8").tobytes() != ref.tobytes():
        errs.append((f"values-or-order:{fn}", f"{out} vs {ref} {txt}"))
    if fn == "log_likelihood":
        if out.dtype != np.dtype("f8"):
            errs.append(("likelihood-dtype", f"{out.dtype} {txt}"))
        if model.likelihood_evaluations - cnt0 != n:
            errs.append(("evaluation-counter", f"+{model.likelihood_evaluations - cnt0} for {n} points {txt}"))
    elif model.likelihood_evaluations != cnt0:
        errs.append(("evaluation-counter-changed-by-prior", txt))
    if x.tobytes() != before.tobytes():
        errs.append((f"input-modified:{fn}", txt))
    seen = model.seen[fn]
    rows = np.concatenate(seen) if seen else xx[:0]
    if len(rows) != n:
        errs.append((f"rows-evaluated-exactly-once:{fn}", f"{len(rows)} rows seen for {n} points {txt}"))
    else:
        order = np.argsort(rows["it"], kind="stable")
        if rows[order][["x0", "x1"]].tobytes() != xx[["x0", "x1"]].tobytes():
            errs.append((f"evaluated-at-wrong-points:{fn}", txt))
    if chunksize and fn == "log_likelihood" and seen and (vectorisable and (pool is None or pool_kind[0] == "sized")):
        if max(len(s) for s in seen) > chunksize:
            errs.append(("chunk-larger-than-chunksize", f"{[len(s) for s in seen]} {txt}"))
    if n > 0:
        # second round: the SAME buffer refilled in place with other values (exact in binary) -
        # the answer must be the pointwise values at the new contents, counted once
        for nm_, a_, b_ in (("x0", 0.5, 0.125), ("x1", 0.25, 0.25)) if (unit or fn == "log_prior_unit_hypercube") else (("x0", 0.5, -0.75), ("x1", -0.5, 1.5)):
            x[nm_][:] = x[nm_][::-1] * a_ + b_
        cnt1 = model.likelihood_evaluations
        try:
            if fn == "log_likelihood":
                out2 = model.batch_evaluate_log_likelihood(x, unit_hypercube=unit)
            elif fn == "log_prior":
                out2 = model.batch_evaluate_log_prior(x, unit_hypercube=unit)
            else:
                out2 = model.batch_evaluate_log_prior_unit_hypercube(x)
        except Exception as e:
            errs.append((f"second-round-raises-{type(e).__name__}:{fn}", f"{e} {txt}"))
            return 1
        ref2, _ = reference(refm, x, fn, unit)
        out2 = np.asarray(out2)
        if out2.shape != (n,) or out2.astype("f8").tobytes() != ref2.tobytes():
            errs.append((f"second-use-of-a-refilled-buffer:values-or-order:{fn}", f"{out2} vs {ref2} {txt}"))
        if fn == "log_likelihood" and model.likelihood_evaluations - cnt1 != n:
            errs.append(("second-use-of-a-refilled-buffer:evaluation-counter", f"+{model.likelihood_evaluations - cnt1} for {n} points {txt}"))
    return 1


def grid(N, quick):
    pools = [None] + [("sized", k) for k in (1, 2, 3, 4)] + [("unsized", 2)]
    for n in range(0, N + 1):
        for pool_kind in pools:
            for vectorisable, ret in ((True, "arr"), (True, "float"), (False, "float"), (False, "0d"), (False, "shape1")):
                for vec_setting in ("explicit", "detect"):
                    if vec_setting == "detect" and (quick and n % 3):
                        continue
                    for fn in ("log_likelihood", "log_prior", "log_prior_unit_hypercube"):
                        units = (False, True) if fn != "log_prior_unit_hypercube" else (False,)
                        chunks = [None] + list(range(1, N + 2)) if fn == "log_likelihood" else [None]
                        pars = (False, True) if (fn != "log_likelihood" and pool_kind is not None) else (False,)
                        for unit in units:
                            for chunksize in chunks:
                                for par in pars:
                                    yield (n, chunksize, pool_kind, vectorisable, vec_setting, ret, fn, unit, par)


def n_tasks_for(n, chunksize, pool_kind, vectorisable, fn, par):
    if pool_kind is None or (fn != "log_likelihood" and not par):
        return 1
    if not vectorisable or pool_kind[0] == "unsized":
        return n
    if chunksize and fn == "log_likelihood":
        return max(1, -(-n // chunksize))
    return pool_kind[1]


def worker(cases):
    errs = []
    ran = 0
    sched = 0
    for c in cases:
        n, chunksize, pool_kind, vectorisable, vec_setting, ret, fn, unit, par = c
        nt = n_tasks_for(n, chunksize, pool_kind, vectorisable, fn, par)
        n_orders = FakePool.n_orders(nt) if pool_kind is not None else 1
        for perm_id in range(n_orders):
            ran += one_case(n, chunksize, pool_kind, vectorisable, vec_setting, ret, fn, unit, par, perm_id, errs)
            if perm_id:
                sched += 1
    seen, viol = set(), []
    for k, d in errs:
        if k not in seen:
            seen.add(k)
            viol.append((k, d, {"case": d}))
    return {"counts": {"evaluations": ran, "non_default_schedules": sched}, "violations": viol}


def default_methods_worker(N):
    """Models that do NOT override the optional methods (unit-hypercube prior, in_bounds): the batch
    interface of the inherited defaults must equal their pointwise evaluation, including coordinates
    exactly on the faces of the cube / box."""
    from nessai.model import Model
    from nessai.livepoint import numpy_array_to_live_points
    from nessai.utils.multiprocessing import initialise_pool_variables

    class Plain(Model):
        def __init__(self):
            self.names = ["x0", "x1"]
            self.bounds = {"x0": [-4.0, 4.0], "x1": [-2.0, 6.0]}

        def log_prior(self, x):
            return np.log(self.in_bounds(x), dtype="f8") + x["x0"] * 0.0

        def log_likelihood(self, x):
            return x["x0"] * x["x0"] * (-0.5) + x["x1"] * 0.25

        def from_unit_hypercube(self, x):
            out = x.copy()
            out["x0"] = 8.0 * x["x0"] + (-4.0)
            out["x1"] = 8.0 * x["x1"] + (-2.0)
            return out

    errs, ran = [], 0
    faces = [0.0, 1.0, np.nextafter(1.0, 0.0), np.nextafter(0.0, 1.0), -0.0, np.nextafter(1.0, 2.0), 0.5, 0.25, -1e-300, 1.0 + 1e-12]
    for n in range(0, N + 1):
        a = np.array([[faces[(i * 3 + n) % len(faces)], faces[(i * 7 + 1) % len(faces)]] for i in range(n)], dtype=float).reshape(n, 2)
        x = numpy_array_to_live_points(a, ["x0", "x1"])
        for pool_k in (None, 2, 3):
            for chunk in (None, 1, 3):
                m = Plain()
                m.likelihood_chunksize = chunk
                if pool_k:
                    initialise_pool_variables(m)
                    m.configure_pool(pool=FakePool(pool_k, perm_id=0, sized=True))
                ref = np.array([float(np.asarray(m.log_prior_unit_hypercube(x[i : i + 1])).reshape(-1)[0]) for i in range(n)], dtype=float)
                x0 = x.tobytes()
                try:
                    with np.errstate(all="ignore"):
                        out = np.asarray(m.batch_evaluate_log_prior_unit_hypercube(x), dtype=float)
                except Exception as e:
                    errs.append((f"default-unit-prior:raises-{type(e).__name__}", f"{e} n={n} pool={pool_k} chunksize={chunk}"))
                    continue
                ran += 1
                if out.shape != (n,) or out.tobytes() != ref.tobytes():
                    errs.append(("default-unit-prior:batch-differs-from-pointwise", f"{out} vs {ref} at {a.tolist()} (n={n} pool={pool_k} chunksize={chunk})"))
                if x.tobytes() != x0:
                    errs.append(("default-unit-prior:input-modified", f"n={n}"))
                if m.likelihood_evaluations != 0:
                    errs.append(("default-unit-prior:evaluation-counter-changed-by-prior", f"n={n}"))
    # non-default dtypes configured through nessai.config (parameters narrower than log-likelihoods):
    # batch values must still be bit-identical to pointwise ones in every branch
    from nessai import config as _cfg

    saved_cfg = (_cfg.livepoints.default_float_dtype, _cfg.livepoints.logl_dtype)
    for fdt, ldt in (("f4", "f8"), ("f8", "f8"), ("f4", "f4")):
        _cfg.livepoints.default_float_dtype, _cfg.livepoints.logl_dtype = fdt, ldt
        _cfg.livepoints.reset_properties()
        try:
            class Wide(Model):
                """likelihood and prior computed in float64 with values no float32 can hold"""

                def __init__(self, vec):
                    self.names = ["x0", "x1"]
                    self.bounds = {"x0": [-4.0, 4.0], "x1": [-2.0, 6.0]}
                    self._vec = vec

                def log_prior(self, x):
                    v = np.asarray(x["x0"], dtype="f8") * 0.1 + 0.123456789012345
                    v = np.where(self.in_bounds(x), v, -np.inf)
                    return v if self._vec or np.ndim(x) else float(v)

                def log_likelihood(self, x):
                    v = np.asarray(x["x0"], dtype="f8") * np.asarray(x["x1"], dtype="f8") * (-0.3) + 1.000000123456789
                    return v if self._vec or np.ndim(x) else float(v)

            for n in (0, 1, 5):
                a = np.array([[(-3.7 + 0.61 * i) % 3.9, (-1.3 + 1.07 * i) % 5.9] for i in range(n)], dtype=float).reshape(n, 2)
                x = numpy_array_to_live_points(a, ["x0", "x1"])
                for vec in (True, False):
                    for pool_k in (None, 2):
                        for chunk in (None, 2):
                            m = Wide(vec)
                            m.likelihood_chunksize = chunk
                            m.vectorised_likelihood = m.vectorised_prior = vec
                            if pool_k:
                                initialise_pool_variables(m)
                                m.configure_pool(pool=FakePool(pool_k, perm_id=0, sized=True))
                            for fn in ("log_likelihood", "log_prior"):
                                single = np.array([float(np.asarray(getattr(m, fn)(x[i : i + 1])).reshape(-1)[0]) for i in range(n)], dtype="f8")
                                try:
                                    with np.errstate(all="ignore"):
                                        out = np.asarray(getattr(m, "batch_evaluate_" + fn)(x))
                                except Exception as e:
                                    errs.append((f"dtype-config:raises-{type(e).__name__}", f"{e} config ({fdt},{ldt}) n={n} vec={vec} pool={pool_k} chunk={chunk} {fn}"))
                                    continue
                                ran += 1
                                want = single.astype(ldt) if fn == "log_likelihood" else single.astype(fdt) if False else single
                                # the log-likelihood is returned in the configured logL dtype, nothing narrower on the way
                                if fn == "log_likelihood" and (out.dtype != np.dtype(ldt) or out.tobytes() != want.tobytes()):
                                    errs.append(("dtype-config:batch-log-likelihood-differs-from-pointwise", f"config (parameters {fdt}, logL {ldt}) n={n} vec={vec} pool={pool_k} chunk={chunk}: {out} vs {want}"))
                                if fn == "log_prior" and np.asarray(out, dtype="f8").astype(fdt).tobytes() != single.astype(fdt).tobytes():
                                    errs.append(("dtype-config:batch-log-prior-differs-from-pointwise", f"config (parameters {fdt}, logL {ldt}) n={n} vec={vec} pool={pool_k} chunk={chunk}: {out} vs {single}"))
        finally:
            _cfg.livepoints.default_float_dtype, _cfg.livepoints.logl_dtype = saved_cfg
            _cfg.livepoints.reset_properties()
    # Model.in_bounds is the gate every proposal relies on: exact, closed-interval comparison with the
    # declared bounds, field by NAME (whatever the order of the fields in the array), no tolerance
    class Box(Model):
        def __init__(self, bounds):
            self.names = list(bounds)
            self.bounds = bounds

        def log_prior(self, x):
            return np.log(self.in_bounds(x), dtype="f8")

        def log_likelihood(self, x):
            return np.zeros(x.size)

    for bounds in ({"p": [99.0, 100.0], "q": [-1.0, 3.0]}, {"p": [0.0, 1.0], "q": [1e5, 3e5], "r": [-4.0, 4.0]}, {"p": [-1e-3, 1e-3], "q": [0.0, 10.0]}):
        m = Box(bounds)
        names = list(bounds)
        cand = {}
        for nm_ in names:
            lo, hi = bounds[nm_]
            w = hi - lo
            cand[nm_] = [lo, hi, np.nextafter(lo, -np.inf), np.nextafter(hi, np.inf), np.nextafter(lo, np.inf), np.nextafter(hi, -np.inf), lo - 1e-9 * max(1.0, abs(lo)), hi + 1e-9 * max(1.0, abs(hi)), lo - 1e-6 * max(1.0, abs(lo)), hi + 1e-6 * max(1.0, abs(hi)), hi + 5e-6 * abs(hi), 0.5 * (lo + hi), lo - w, hi + w, np.nan]
        rows = []
        for j, nm_ in enumerate(names):
            for v in cand[nm_]:
                row = {k_: 0.5 * (bounds[k_][0] + bounds[k_][1]) for k_ in names}
                row[nm_] = v
                rows.append(row)
        for order in (names, names[::-1], names[1:] + names[:1]):
            # fields in this order, then the non-sampling fields
            dt = np.dtype([(nm_, "f8") for nm_ in order] + [("logP", "f8"), ("logL", "f8"), ("it", "i4")])
            arr = np.zeros(len(rows), dtype=dt)
            for i_, row in enumerate(rows):
                for nm_ in names:
                    arr[nm_][i_] = row[nm_]
            want = np.ones(len(rows), dtype=bool)
            for nm_ in names:
                with np.errstate(invalid="ignore"):
                    want &= ~((arr[nm_] < bounds[nm_][0]) | (arr[nm_] > bounds[nm_][1]))
            try:
                with np.errstate(invalid="ignore"):
                    got = np.asarray(m.in_bounds(arr), dtype=bool)
            except Exception as e:
                errs.append((f"in_bounds:raises-{type(e).__name__}", f"{e} order {order}"))
                continue
            ran += 1
            if got.shape != want.shape or np.any(got != want):
                i_ = int(np.flatnonzero(got != want)[0])
                errs.append(("in_bounds:differs-from-the-exact-closed-interval-test-by-name", f"fields {order}, bounds {bounds}: point { {nm_: float(arr[nm_][i_]) for nm_ in names} } -> {bool(got[i_])}, expected {bool(want[i_])}"))
    seen, viol = set(), []
    for k, d in errs:
        if k not in seen:
            seen.add(k)
            viol.append((k, d, {"case": d}))
    return {"counts": {"evaluations": ran}, "violations": viol}


def cross_model_worker(N):
    """Two models alive in one process, each with its own kind of pool (none / user-supplied
    in-process pool / nessai's own n_pool fork pool), evaluated alternately: A, configure B, B, A
    again.  Whatever nessai keeps at module level for its pool wrappers must not let one model
    answer with the other's functions."""
    import multiprocessing.pool as mpp
    from nessai.utils.multiprocessing import initialise_pool_variables

    errs, ran = [], 0
    kinds = ("none", "fake", "thread", "n_pool")

    def setup(m, kind):
        if kind == "fake":
            initialise_pool_variables(m)
            m.configure_pool(pool=FakePool(2, perm_id=0, sized=True))
        elif kind == "thread":
            initialise_pool_variables(m)
            m.configure_pool(pool=mpp.ThreadPool(2))
        elif kind == "n_pool":
            m.configure_pool(n_pool=2)

    class B_(object):
        pass

    for ka in kinds:
        # B never uses an in-process pool of its own: that requires initialise_pool_variables(B) in
        # this process, which by nessai's documented design re-points the (single) module-level model
        for kb in ("none", "n_pool"):
            a = make_model("arr", True)
            b = make_model("arr", True)
            # B is a different model: its functions are those of A shifted by a constant
            ll_a, lp_a = a.log_likelihood, a.log_prior
            b.log_likelihood = lambda x, _f=b.log_likelihood: _f(x) + 7.0
            b.log_prior = lambda x, _f=b.log_prior: _f(x) - 3.0
            a.vectorised_likelihood = a.vectorised_prior = True
            b.vectorised_likelihood = b.vectorised_prior = False if kb == "n_pool" else True
            x = points(min(N, 6), False)
            ref_a = (np.asarray(ll_a(x), dtype=float), np.asarray(lp_a(x), dtype=float))
            try:
                setup(a, ka)
                out1 = (np.asarray(a.batch_evaluate_log_likelihood(x), dtype=float), np.asarray(a.batch_evaluate_log_prior(x), dtype=float))
                setup(b, kb)
                outb = np.asarray(b.batch_evaluate_log_likelihood(x), dtype=float)
                out2 = (np.asarray(a.batch_evaluate_log_likelihood(x), dtype=float), np.asarray(a.batch_evaluate_log_prior(x), dtype=float))
            except Exception as e:
                errs.append((f"cross-model:raises-{type(e).__name__}", f"{e} (A pool {ka}, B pool {kb})"))
                continue
            finally:
                for m in (a, b):
                    try:
                        m.close_pool()
                    except Exception:
                        pass
            ran += 3
            if out1[0].tobytes() != ref_a[0].tobytes() or out1[1].tobytes() != ref_a[1].tobytes():
                errs.append(("cross-model:first-evaluation-wrong", f"A pool {ka}"))
            if outb.tobytes() != (ref_a[0] + 7.0).tobytes():
                errs.append(("cross-model:second-model-answers-with-other-functions", f"A pool {ka}, B pool {kb}: {outb} vs {ref_a[0] + 7.0}"))
            if out2[0].tobytes() != ref_a[0].tobytes() or out2[1].tobytes() != ref_a[1].tobytes():
                errs.append(("cross-model:first-model-answers-with-the-second-model's-functions", f"A pool {ka}, B pool {kb}: logL {out2[0]} vs {ref_a[0]}, logP {out2[1]} vs {ref_a[1]}"))
    seen, viol = set(), []
    for k, d in errs:
        if k not in seen:
            seen.add(k)
            viol.append((k, d, {"case": d}))
    return {"counts": {"evaluations": ran}, "violations": viol}


def real_pool_case(item):
    """Real multiprocessing pools (fork): created by nessai (n_pool) or user supplied."""
    from nessai.utils.multiprocessing import initialise_pool_variables

    k, user_pool, vectorisable, chunksize = item
    errs = []
    ran = 0
    model = make_model("arr" if vectorisable else "float", vectorisable)
    model.likelihood_chunksize = chunksize
    model.vectorised_likelihood = vectorisable
    model.vectorised_prior = vectorisable
    model.parallelise_prior = True
    pool = None
    try:
        if user_pool:
            pool = multiprocessing.get_context("fork").Pool(k, initializer=initialise_pool_variables, initargs=(model,))
            model.configure_pool(pool=pool)
        else:
            model.configure_pool(n_pool=k)
        refm = make_model("float", True)
        for n in (0, 1, 5, 12):
            for fn, unit in (("log_likelihood", False), ("log_likelihood", True), ("log_prior", False)):
                x = points(n, unit)
                c0 = model.likelihood_evaluations
                txt = f"real pool k={k} user_pool={user_pool} vectorisable={vectorisable} chunksize={chunksize} n={n} fn={fn} unit={unit}"
                try:
                    if fn == "log_likelihood":
                        out = model.batch_evaluate_log_likelihood(x, unit_hypercube=unit)
                    else:
                        out = model.batch_evaluate_log_prior(x)
                except Exception as e:
                    errs.append((f"raises-{type(e).__name__}:real-pool", f"{e} {txt}"))
                    continue
                ran += 1
                ref, _ = reference(refm, x, fn, unit)
                if np.asarray(out).shape != (n,) or np.asarray(out, dtype="f8").tobytes() != ref.tobytes():
                    errs.append((f"values-or-order:{fn}:real-pool", f"{out} vs {ref} {txt}"))
                dn = model.likelihood_evaluations - c0
                if dn != (n if fn == "log_likelihood" else 0):
                    errs.append(("evaluation-counter:real-pool", f"+{dn} {txt}"))
    finally:
        if user_pool and pool is not None:
            pool.terminate()
            pool.join()
        else:
            model.close_pool(code=2)
    seen, viol = set(), []
    for k_, d in errs:
        if k_ not in seen:
            seen.add(k_)
            viol.append((k_, d, {"case": d}))
    return {"counts": {"evaluations": ran, "real_pool_runs": ran}, "violations": viol}


def run(ctx):
    N = 8 if ctx.quick else 16
    cases = list(grid(N, ctx.quick))
    step = max(1, len(cases) // 128)
    for it, res in ctx.pmap(worker, [cases[i : i + step] for i in range(0, len(cases), step)]):
        ctx.merge(res)
    real = [(k, up, v, cs) for k in (1, 2, 3, 4) for up in (False, True) for v in (True, False) for cs in ((None, 1, 5, 13) if v else (None,))]
    if ctx.quick:
        real = [r for r in real if r[0] in (1, 3) or r[3] is None]
    for it, res in ctx.pmap(real_pool_case, real, nproc=8):
        ctx.merge(res)
    for it, res in ctx.pmap(default_methods_worker, [N]):
        ctx.merge(res)
    for it, res in ctx.pmap(cross_model_worker, [N]):
        ctx.merge(res)
    ctx.set("distinct_nontrivial", len(cases))
    ctx.set("rule", "two models with every pair of pool kinds (none / user in-process / thread / n_pool) evaluated alternately; models that keep the inherited unit-hypercube prior, on coordinates exactly on / next to the faces of the cube; full grid: n 0..N x chunksize None|1..N+1 x pool {none, sized fake 1..4, unsized fake} x (vectorisable, return shape) x {explicit, auto-detected} vectorisation flag x {likelihood, prior, unit-hypercube prior} x unit_hypercube flag x parallelise_prior; each pooled case under every completion order (all permutations for <=4 tasks, rotations+reversal otherwise); real fork pools on a sub-grid. Distinct/non-trivial: distinct grid cells (schedules counted separately)")
    ctx.set("bounds", dict(N=N, pool_sizes=[1, 2, 3, 4], real_pool_n=[0, 1, 5, 12]))
    ctx.set("exhaustive", True)
    ctx.sample({"n": 5, "chunksize": 2, "pool": ["sized", 3], "vectorisable": True, "fn": "log_likelihood", "unit_hypercube": True, "completion_order": [2, 0, 1]})
    ctx.assume(
        "the likelihood/prior use only + and * on float64, so pointwise and batched values must agree bit for bit",
        "user pools are initialised with initialise_pool_variables(model) as documented",
    )


def replay(ctx, data):
    return [f"stored case: {data.get('case')}"]
