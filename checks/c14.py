"""C14 - seeded runs are reproducible and independent of parallelisation settings.

Lattice of (sampler, seed, process, PYTHONHASHSEED, n_pool, user pool, chunk size,
parallel prior) executed in separate interpreter processes and twice within one
process; every completion order of a controllable pool at one map call
(deviation 1) and at two (deviation 2, thorough).  Byte digests of the nested
samples, evidence, posterior weights and evaluation counter must coincide inside
a seed class.
"""
import copy
import itertools
import json
import os
import subprocess
import sys

import numpy as np

from mc import core, runs

LEVEL = "exploration"


def lattice(seed, quick):
    par = [
        {},
        {"n_pool": 1},
        {"n_pool": 2},
        {"n_pool": 3},
        {"n_pool": 4},
        {"user_pool": 2},
        {"likelihood_chunksize": 1},
        {"likelihood_chunksize": 7},
        {"likelihood_chunksize": 10000},
        {"n_pool": 2, "likelihood_chunksize": 7},
        {"n_pool": 3, "parallelise_prior": True},
        {"user_pool": 3, "parallelise_prior": True, "likelihood_chunksize": 3},
    ]
    if quick:
        par = [par[i] for i in (0, 2, 4, 5, 7, 9, 10)]
    cfgs = []
    for kind in ("std", "ins"):
        # seed 0 is a boundary value of its own (falsy): always present, on a sub-lattice when it
        # is not one of the two seeds of this run
        for s in (seed, seed + 1) + (() if 0 in (seed, seed + 1) else (0,)):
            for p in par if s in (seed, seed + 1) else par[:2]:
                p = dict(p)
                up = p.pop("user_pool", None)
                base = {"nlive": 10, "poolsize": 10, "maximum_uninformed": 10} if kind == "std" else {"max_iteration": 2}
                cfg = {"kind": kind, "model": "G2", "seed": s, "kwargs": {**base, **p}, "resume": "none"}
                if up:
                    cfg["user_pool"] = up
                cfgs.append(cfg)
    # a partial reparameterisation leaves two parameters of an asymmetric model to the fallback:
    # the flow's column order must not depend on the interpreter's hash seed
    for p in ({}, {"n_pool": 2}):
        cfgs.append({"kind": "std", "model": "G3a", "seed": seed, "kwargs": {"nlive": 10, "poolsize": 10, "maximum_uninformed": 10, "reparameterisations": {"a": "rescaletobounds"}, **p}, "resume": "none"})
    # analytic priors, also with vectorisation disabled: the evaluation count must not depend on the pool
    for extra in ({"analytic_priors": True}, {"analytic_priors": True, "disable_vectorisation": True}, {"disable_vectorisation": True}):
        for p in ({}, {"n_pool": 2}, {"user_pool": 2}):
            p = dict(p)
            up = p.pop("user_pool", None)
            cfg = {"kind": "std", "model": "G2ramp", "seed": seed, "kwargs": {"nlive": 10, "poolsize": 10, "maximum_uninformed": 10, **extra, **p}, "resume": "none"}
            if up:
                cfg["user_pool"] = up
            cfgs.append(cfg)
    # single-precision parameters configured through nessai.config (log-likelihoods stay float64):
    # whichever path evaluates the likelihood, its values reach the sampler unrounded
    # (standard sampler only: the importance sampler's up-front check of its rescaling rejects
    # single-precision parameters, which is not a matter of this property)
    for kind in ("std",):
        for p in ({}, {"n_pool": 2}, {"user_pool": 2}, {"n_pool": 2, "likelihood_chunksize": 7}):
            p = dict(p)
            up = p.pop("user_pool", None)
            base = {"nlive": 10, "poolsize": 10, "maximum_uninformed": 10} if kind == "std" else {"max_iteration": 2}
            cfg = {"kind": kind, "model": "G2", "seed": seed, "kwargs": {**base, **p}, "resume": "none", "nessai_config": {"default_float_dtype": "f4"}}
            if up:
                cfg["user_pool"] = up
            cfgs.append(cfg)
    cfgs.append({"kind": "ins", "model": "G3a", "seed": seed, "kwargs": {"max_iteration": 2}, "resume": "none"})
    cfgs.append({"kind": "ins", "model": "G3a", "seed": seed, "kwargs": {"max_iteration": 2, "n_pool": 2}, "resume": "none"})
    return cfgs


def spawn(cfgs, hashseed):
    env = dict(os.environ)
    env["PYTHONHASHSEED"] = str(hashseed)
    env["NESSAI_REPO"] = core.REPO
    env["PYTHONPATH"] = core.REPO + os.pathsep + env.get("PYTHONPATH", "")
    p = subprocess.Popen(
        [sys.executable, os.path.join(core.VERIF, "mc", "child_run.py")],
        stdin=subprocess.PIPE, stdout=subprocess.PIPE, stderr=subprocess.DEVNULL, env=env, text=True, cwd=core.VERIF,
    )
    p.stdin.write(json.dumps(cfgs))
    p.stdin.close()
    return p


def collect(p):
    out = p.stdout.read()
    p.wait(timeout=600)
    res = []
    for line in out.splitlines():
        if line.startswith("DIGEST "):
            res.append(json.loads(line[7:]))
    return res


# -- controllable pool schedules (in-process) -----------------------------------------


def sched_worker(item):
    """item = (kind, seed, deviations) with deviations = {map call index: order id}."""
    from checks.c10 import FakePool
    from nessai.utils.multiprocessing import initialise_pool_variables
    from mc.tinymodels import make
    import hashlib

    kind, seed, devs = item
    devs = dict(devs)

    class SchedPool(FakePool):
        def __init__(self, processes):
            super().__init__(processes)
            self.call = 0

        def _order(self, n):
            i = self.call
            self.call += 1
            self.perm_id = devs.get(i, 0)
            return super()._order(n)

    pool = SchedPool(3)
    base = {"nlive": 10, "poolsize": 10, "maximum_uninformed": 10} if kind == "std" else {"max_iteration": 2}
    cfg = {"kind": kind, "model": "G2", "seed": seed, "kwargs": {**base, "pool": pool}, "resume": "none"}
    # the fake pool evaluates in-process through nessai's wrappers, which use the global model
    orig_make = runs.make

    def make_and_register(name, **kw):
        m = orig_make(name, **kw)
        initialise_pool_variables(m)
        return m

    runs.make = make_and_register
    try:
        runner = runs.run_standard_case if kind == "std" else runs.run_ins_case
        res = runner(cfg, want=(), keep_output=True)
    finally:
        runs.make = orig_make
    import shutil

    if res.get("output"):
        shutil.rmtree(res["output"], ignore_errors=True)
    fs = res.get("fs")
    if fs is None:
        return dict(error=str(res["errs"][:1]), calls=pool.call, tasks=pool.n_tasks)
    samples = np.asarray(fs.nested_samples)
    return dict(
        digest=(hashlib.sha1(samples.tobytes()).hexdigest(), float(fs.logZ).hex(), int(res["model"].likelihood_evaluations)),
        calls=pool.call, tasks=list(pool.n_tasks),
    )


# -- wall-clock schedules (in-process, virtual clock) -----------------------------------


def clock_worker(item):
    """item = (kind, seed, speed): the same time-triggered-checkpoint configuration under a virtual
    clock that advances `speed` seconds per evaluated point.  The wall clock decides when periodic
    checkpoints are written (never for speed 0, after every few points for speed 1000); it must not
    decide anything else."""
    from mc import vclock
    from mc.tinymodels import make
    import hashlib
    import shutil

    kind, seed, speed = item
    clk = vclock.VClock()
    base = {"nlive": 10, "poolsize": 10, "maximum_uninformed": 10} if kind == "std" else {"max_iteration": 2}
    cfg = {"kind": kind, "model": "G2", "seed": seed, "kwargs": {**base, "checkpoint_on_iteration": False, "checkpoint_interval": 60}, "resume": "none"}
    orig_make = runs.make

    def make_ticking(name, **kw):
        m = orig_make(name, **kw)
        inner = m.log_likelihood

        def ll(x, _inner=inner):
            clk.tick(speed * np.atleast_1d(x).size)
            return _inner(x)

        m.log_likelihood = ll
        return m

    import nessai.samplers.base as sbase

    n_ckpt = [0]
    o_dump = sbase.safe_file_dump

    def dump(*a, **k):
        n_ckpt[0] += 1
        return o_dump(*a, **k)

    runs.make = make_ticking
    sbase.safe_file_dump = dump
    try:
        with clk.installed():
            runner = runs.run_standard_case if kind == "std" else runs.run_ins_case
            res = runner(cfg, want=(), keep_output=True)
    finally:
        runs.make = orig_make
        sbase.safe_file_dump = o_dump
    if res.get("output"):
        shutil.rmtree(res["output"], ignore_errors=True)
    fs = res.get("fs")
    if fs is None:
        return dict(error=str(res["errs"][:1]), checkpoints=n_ckpt[0])
    samples = np.asarray(fs.nested_samples)
    return dict(digest=(hashlib.sha1(samples.tobytes()).hexdigest(), float(fs.logZ).hex(), int(res["model"].likelihood_evaluations)), checkpoints=n_ckpt[0])


def loglevel_worker(item):
    """item = (kind, seed, level): the same run with nessai's logger at another level - process-global
    state that must not reach the random stream."""
    import hashlib
    import logging
    import shutil

    kind, seed, level = item
    lg = logging.getLogger("nessai")
    old_level, old_prop, old_handlers = lg.level, lg.propagate, list(lg.handlers)
    lg.handlers = [logging.NullHandler()]
    lg.propagate = False
    lg.setLevel(level)
    old_disable = logging.root.manager.disable
    logging.disable(logging.NOTSET)  # the harness silences logging in its workers: undo it here
    base = {"nlive": 10, "poolsize": 10, "maximum_uninformed": 10} if kind == "std" else {"max_iteration": 2}
    cfg = {"kind": kind, "model": "G2", "seed": seed, "kwargs": dict(base), "resume": "none"}
    try:
        runner = runs.run_standard_case if kind == "std" else runs.run_ins_case
        res = runner(cfg, want=(), keep_output=True)
    finally:
        logging.disable(old_disable)
        lg.setLevel(old_level)
        lg.propagate = old_prop
        lg.handlers = old_handlers
    if res.get("output"):
        shutil.rmtree(res["output"], ignore_errors=True)
    fs = res.get("fs")
    if fs is None:
        return dict(error=str(res["errs"][:1]))
    samples = np.asarray(fs.nested_samples)
    return dict(digest=(hashlib.sha1(samples.tobytes()).hexdigest(), float(fs.logZ).hex(), int(res["model"].likelihood_evaluations)))


def run(ctx):
    cfgs = lattice(ctx.seed, ctx.quick)
    for i, c in enumerate(cfgs):
        c["id"] = i
    # separate processes: split over children, each configuration under two hash seeds;
    # every child additionally repeats its first configuration (same process, fresh objects)
    nchild = 12 if ctx.quick else 16
    groups = [cfgs[i::nchild] for i in range(nchild)]
    procs = []
    for g in groups:
        if not g:
            continue
        rep = dict(g[0])
        rep["id"] = f"{g[0]['id']}-again"
        for hs in ((0,) if ctx.quick else (0, 1)):
            procs.append(spawn(g + [rep], hs))
    if ctx.quick:
        # a second interpreter with a different hash seed for a slice of the lattice
        procs.append(spawn(cfgs[::5], 1))
    # the configurations whose internal ordering could depend on string hashing: more hash seeds
    hashy = [c for c in cfgs if c.get("model") == "G3a"]
    for hs in (1, 2, 3):
        procs.append(spawn(hashy, hs))
    digests = {}
    for p in procs:
        for d in collect(p):
            ctx.count("evaluations")
            cid = d["id"]
            base_id = int(str(cid).split("-")[0])
            digests.setdefault(base_id, []).append(d)
    classes = {}
    n_in_class = 0
    for cid, ds in digests.items():
        cfg = cfgs[cid]
        # a class = everything but the parallelisation settings
        other = {k: v for k, v in cfg["kwargs"].items() if k not in ("n_pool", "likelihood_chunksize", "parallelise_prior")}
        key = (cfg["kind"], cfg["seed"], cfg.get("model", "G2"), json.dumps(other, sort_keys=True, default=str), json.dumps(cfg.get("nessai_config", {}), sort_keys=True))
        for d in ds:
            if "error" in d:
                ctx.violation(f"run-failed@{runs.cfg_key(cfg)}", f"{d['error']} (config {cfg}, PYTHONHASHSEED={d.get('hashseed')})", {"cfg": cfg})
                continue
            sig = (d["samples"], d["logZ"], d["weights"], d["evaluations"])
            classes.setdefault(key, {}).setdefault(sig, []).append((cfg, d))
            n_in_class += 1
    for key, sigs in classes.items():
        if len(sigs) > 1:
            ref_sig = max(sigs, key=lambda s: len(sigs[s]))
            for sig, members in sigs.items():
                if sig == ref_sig:
                    continue
                cfg, d = members[0]
                which = [n for n, a, b in zip(("nested samples", "logZ", "posterior weights", "evaluation count"), sig, ref_sig) if a != b]
                par = {k: v for k, v in cfg["kwargs"].items() if k in ("n_pool", "likelihood_chunksize", "parallelise_prior")}
                par["user_pool"] = cfg.get("user_pool")
                ctx.violation(f"differs-within-seed-class:{cfg['kind']}:{sorted((k, v) for k, v in par.items() if v)}", f"{which} differ from the majority of seed class {key} for parallelisation settings {par} (PYTHONHASHSEED={d.get('hashseed')}, id {d['id']})", {"cfg": cfg})
    missing = [c for c in cfgs if c["id"] not in digests]
    if missing:
        raise core.HarnessError(f"{len(missing)} configurations produced no digest, e.g. {missing[0]}")
    # controllable pool: every completion order at one map call, then at two
    sched_items = []
    base = {}
    for (kind, seed, devs), res in ctx.pmap(sched_worker, [(k, ctx.seed, ()) for k in ("std", "ins")]):
        if "error" in res:
            ctx.violation(f"controllable-pool-run-failed:{kind}", res["error"], {})
            continue
        base[kind] = res
    from checks.c10 import FakePool

    for kind, res in base.items():
        ncalls = res["calls"]
        calls = list(range(ncalls))
        if ctx.quick and ncalls > 24:
            calls = calls[:: max(1, ncalls // 24)]
        for i in calls:
            n_orders = FakePool.n_orders(res["tasks"][i]) if i < len(res["tasks"]) else 1
            for o in range(1, min(n_orders, 6)):
                sched_items.append((kind, ctx.seed, ((i, o),)))
        if not ctx.quick:
            for i, j in itertools.combinations(calls[:: max(1, len(calls) // 8)], 2):
                sched_items.append((kind, ctx.seed, ((i, 1), (j, 2))))
    for (kind, seed, devs), res in ctx.pmap(sched_worker, sched_items):
        ctx.count("evaluations")
        ctx.count("schedules_explored")
        if "error" in res:
            ctx.violation(f"controllable-pool-run-failed:{kind}", f"{res['error']} under completion-order deviations {devs}", {})
        elif res["digest"] != base[kind]["digest"]:
            ctx.violation(f"result-depends-on-pool-completion-order:{kind}", f"deviations {devs} (map call index, order id) change the result: {res['digest']} vs {base[kind]['digest']}", {})
    ctx.set("distinct_nontrivial", len(cfgs) + len(sched_items))
    # wall-clock schedules: same configuration, clock speeds from "frozen" to "a checkpoint every few points"
    speeds = (0, 1, 37, 1000) if ctx.quick else (0, 1, 7, 37, 211, 1000, 10**6)
    by_kind = {}
    for (kind, seed, speed), res in ctx.pmap(clock_worker, [(k, ctx.seed, sp) for k in ("std", "ins") for sp in speeds]):
        ctx.count("evaluations")
        ctx.count("clock_schedules")
        if "error" in res:
            ctx.violation(f"clock-schedule-run-failed:{kind}", f"{res['error']} (speed {speed})", {"clock": [kind, seed, speed]})
            continue
        by_kind.setdefault(kind, []).append((speed, res))
    for kind, rs in by_kind.items():
        rs.sort(key=lambda t: t[0])
        ref = rs[0][1]["digest"]
        ctx.sample({"clock_schedules": kind, "checkpoints_written_per_speed": {str(sp): r["checkpoints"] for sp, r in rs}}, limit=4)
        if len({r["checkpoints"] for _, r in rs}) < 2:
            raise core.HarnessError(f"clock speeds did not change the number of checkpoints for {kind}: vacuous")
        for sp, r in rs[1:]:
            if r["digest"] != ref:
                which = [n for n, a, b in zip(("nested samples", "logZ", "evaluation count"), r["digest"], ref) if a != b]
                ctx.violation(f"result-depends-on-the-wall-clock:{kind}", f"{which} differ between a frozen clock ({rs[0][1]['checkpoints']} checkpoints) and {sp} s per evaluated point ({r['checkpoints']} time-triggered checkpoints)", {"clock": [kind, ctx.seed, sp]})
                break
    # process-global settings that must not reach the random stream: the log level
    import logging

    by_kind = {}
    for (kind, seed, level), res in ctx.pmap(loglevel_worker, [(k, ctx.seed, lv) for k in ("std", "ins") for lv in (logging.WARNING, logging.INFO, logging.DEBUG)]):
        ctx.count("evaluations")
        if "error" in res:
            ctx.violation(f"log-level-run-failed:{kind}", f"{res['error']} (level {level})", {"loglevel": [kind, seed, level]})
            continue
        by_kind.setdefault(kind, []).append((level, res["digest"]))
    for kind, rs in by_kind.items():
        ref = max(rs)[1]  # WARNING
        for level, dg in rs:
            if dg != ref:
                which = [n for n, a, b in zip(("nested samples", "logZ", "evaluation count"), dg, ref) if a != b]
                ctx.violation(f"result-depends-on-the-log-level:{kind}", f"{which} differ between log level WARNING and {logging.getLevelName(level)}", {"loglevel": [kind, ctx.seed, level]})
                break
    ctx.set("seed_classes", {str(k): len(v) for k, v in classes.items()})
    ctx.set("pool_map_calls", {k: v["calls"] for k, v in base.items()})
    ctx.set("rule", "lattice {std, INS} x 2 seeds (+ seed 0) x parallelisation settings (n_pool 1..4, user-supplied fork pool, chunk sizes 1/7/larger than any batch, parallel prior) run in separate interpreter processes (two PYTHONHASHSEED values) and twice inside one process; controllable in-process pool with every completion order (<= 5 per call) at each map call (deviation 1) and at pairs of calls (deviation 2, thorough); virtual-clock schedules: the time-triggered-checkpoint configuration of each sampler under clock speeds 0 .. 1e6 s per evaluated point (the wall clock may only decide when checkpoints are written); the same run under log levels WARNING / INFO / DEBUG. Distinct/non-trivial: distinct configurations + distinct schedules")
    ctx.set("exhaustive", True)
    ctx.sample({"config": cfgs[3], "digest": "sha1(nested samples), logZ.hex(), sha1(log posterior weights), evaluation count"})
    ctx.assume(
        "the test likelihood uses only + and * so vectorised, chunked and pointwise evaluation agree bit for bit",
        "pools whose size cannot be discovered make nessai disable vectorisation (documented fallback, different random stream): outside the lattice",
    )


def replay(ctx, data):
    if data.get("loglevel"):
        import logging

        kind, seed, level = data["loglevel"]
        a, b = loglevel_worker((kind, seed, logging.WARNING)), loglevel_worker((kind, seed, level))
        if "error" in a or "error" in b:
            return [f"run failed: {a.get('error') or b.get('error')}"]
        return [] if a["digest"] == b["digest"] else [f"results differ between log levels WARNING and {level}"]
    if data.get("clock"):
        kind, seed, speed = data["clock"]
        a, b = clock_worker((kind, seed, 0)), clock_worker((kind, seed, speed))
        if "error" in a or "error" in b:
            return [f"run failed: {a.get('error') or b.get('error')}"]
        return [] if a["digest"] == b["digest"] else [f"results differ between a frozen clock and {speed} s per evaluated point: {a['digest']} vs {b['digest']}"]
    return [f"re-run ./check C14; stored config: {data.get('cfg')}"]
