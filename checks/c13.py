"""C13 - a termination signal at any instant leaves a consistent, resumable state.

E4: for selected iterations of real runs of both samplers the signal handler
installed by FlowSampler is invoked before EVERY executed source line of the
iteration (line events of all nessai frames; loop bodies de-duplicated to the
first, second and last occurrence of each line; opcode events inside the three
commit functions in the thorough tier).  The checkpoint left behind is resumed
and inspected, then run to completion under the C01/C03 monitors and the C05
oracle.
"""
import copy
import os
import shutil
import signal
import sys

import numpy as np

from mc import core, interrupt, runs
from mc.monitors import StdMonitor, rows
from mc.tinymodels import make

LEVEL = "fault_enumeration"

STD_CFG = {"kind": "std", "model": "G2", "kwargs": {"signal_handling": True, "exit_code": 77}}
INS_CFG = {"kind": "ins", "model": "G2", "kwargs": {"signal_handling": True, "max_iteration": 3, "exit_code": 78}}

COMMIT_FUNCS = ("consume_sample", "insert_live_point", "increment")


def site_key(chain, kind):
    """Stable identity of an injection site: the sampler-level statement in progress."""
    # chain is innermost -> outermost
    loop_names = ("NestedSampler.nested_sampling_loop", "ImportanceNestedSampler.nested_sampling_loop", "FlowSampler.run_standard_sampler", "FlowSampler.run_importance_nested_sampler")
    outer = None
    for q, ln, src in chain:
        if q in loop_names:
            break
        outer = (q, src)
    if outer is None:
        for q, ln, src in chain:
            if q in loop_names:
                outer = (q, src)
                break
    if outer is None:
        outer = (chain[0][0], chain[0][2])
    if outer[0] == "NestedSampler.initialise" and chain[0][0] != outer[0]:
        # the initialisation is one long statement (populate_live_points): add the innermost function
        return f"{outer[0]}: {outer[1]} / in {chain[0][0]}"
    return f"{outer[0]}: {outer[1]}"


# exit codes: the one configured (77 / 78 in the base configurations), plus variants carried as
# a sixth element of an item: another legal integer (0 is one), or "default" = not configured
# (the documented default is 130)
EXIT_CODE_VARIANTS = [0, 1, 255, "default"]


def _exit_code_variant(base, rest):
    kwargs = dict(base)
    if rest:
        if rest[0] == "default":
            kwargs.pop("exit_code")
            return 130, kwargs
        kwargs["exit_code"] = int(rest[0])
    return kwargs["exit_code"], kwargs


def std_case(item):
    """item = (seed, target_iteration, fire_at, signum, opcodes). fire_at None -> counting run."""
    from nessai.flowsampler import FlowSampler
    from nessai.samplers.nestedsampler import NestedSampler as NS

    seed, target, fire_at, signum, opcodes, *rest = item
    expected_code, cfg_kwargs = _exit_code_variant(STD_CFG["kwargs"], rest)
    # ("resumed", T): the run is first terminated once by the real handler at an iteration boundary
    # and resumed; the window is iteration T of the RESUMED run (a job pre-empted twice)
    pre_signal = False
    if isinstance(target, (tuple, list)) and target[0] == "resumed":
        pre_signal, target = True, target[1]
    runs.reset_globals()
    out = runs.scratch("c13")
    kw = runs.std_base(seed, **cfg_kwargs)
    win = interrupt.Window(core.REPO, fire_at=fire_at, signum=signum, opcodes_in=COMMIT_FUNCS if opcodes else ())
    state = dict(pre=None, started=False, stopped=False, info={})
    o_check = NS.check_state
    old_handlers = {s: signal.getsignal(s) for s in (signal.SIGTERM, signal.SIGINT, signal.SIGALRM)}

    def check_state(ns, *a, **k):
        if target in ("fin", "init"):
            return o_check(ns, *a, **k)
        if not state["started"] and ns.iteration == target - 1 and ns.live_points is not None:
            state["started"] = True
            state["pre"] = dict(live=ns.live_points.copy(), nested=[r.copy() for r in ns.nested_samples], iteration=ns.iteration)
            state["info"] = dict(phase="flow" if ns.proposal is ns._flow_proposal else "uninformed", populated=bool(ns.proposal.populated))
            win.start(extra_frames=[sys._getframe(1)])
        elif state["started"] and not state["stopped"] and ns.iteration >= target:
            state["stopped"] = True
            win.stop(extra_frames=[sys._getframe(1)])
        return o_check(ns, *a, **k)

    o_fin = NS.finalise

    def finalise(ns, *a, **k):
        # window over the finalisation: from entry to NestedSampler.finalise until it returns
        if target == "fin" and not state["started"]:
            state["started"] = True
            state["pre"] = dict(live=ns.live_points.copy(), nested=[r.copy() for r in ns.nested_samples], iteration=ns.iteration)
            state["info"] = dict(phase="finalise", populated=bool(ns.proposal.populated))
            win.start(extra_frames=[sys._getframe(1)])
            try:
                return o_fin(ns, *a, **k)
            finally:
                if not state["stopped"]:
                    state["stopped"] = True
                    win.stop(extra_frames=[sys._getframe(1)])
        return o_fin(ns, *a, **k)

    o_init = NS.initialise

    def initialise(ns, *a, **k):
        # window over the initialisation (proposals, initial live points) of a fresh run
        if target == "init" and not state["started"]:
            state["started"] = True
            state["pre"] = dict(live=np.empty(0, dtype=[("x0", "f8")]), nested=[], iteration=0)
            state["info"] = dict(phase="initialise", populated=False)
            win.start(extra_frames=[sys._getframe(1)])
            try:
                return o_init(ns, *a, **k)
            finally:
                if not state["stopped"]:
                    state["stopped"] = True
                    win.stop(extra_frames=[sys._getframe(1)])
        return o_init(ns, *a, **k)

    NS.check_state = check_state
    NS.finalise = finalise
    NS.initialise = initialise
    res = dict(errs=[], fired=None, events=None, info={})
    model = make("G2")
    exit_code = None
    handler_error = None
    try:
        if pre_signal:
            fs0 = FlowSampler(make("G2"), output=out, resume=False, **copy.deepcopy(kw))
            wrapped = NS.check_state

            def cs0(ns, *a, **k):
                if ns.iteration == 4:
                    fs0.safe_exit(signal.SIGTERM, None)
                return wrapped(ns, *a, **k)

            NS.check_state = cs0
            try:
                fs0.run(plot=False, save=False)
                raise RuntimeError("the first signal did not end the first leg")
            except SystemExit:
                pass
            finally:
                NS.check_state = wrapped
            runs.reset_globals()
        fs = FlowSampler(model, output=out, resume=pre_signal, **copy.deepcopy(kw))
        try:
            fs.run(plot=False, save=False)
        except SystemExit as e:
            exit_code = e.code
        except Exception as e:
            if win.fired is None:
                raise
            # the handler was invoked and something other than SystemExit came out of it
            handler_error = f"{type(e).__name__}: {e}"
        finally:
            win.stop()
    except Exception as e:
        NS.check_state = o_check
        NS.finalise = o_fin
        NS.initialise = o_init
        for s, h in old_handlers.items():
            signal.signal(s, h)
        shutil.rmtree(out, ignore_errors=True)
        return dict(errs=[(f"harness:{type(e).__name__}", str(e)[:300])], fired=None, events=None, info={}, harness=True)
    finally:
        NS.check_state = o_check
        NS.finalise = o_fin
        NS.initialise = o_init
    res["info"] = state["info"]
    if fire_at is None:
        res["events"] = win.events
        for s, h in old_handlers.items():
            signal.signal(s, h)
        shutil.rmtree(out, ignore_errors=True)
        return res
    res["fired"] = win.fired
    if win.fired is None:
        res["errs"].append(("harness:site-not-reached", f"event {fire_at} of iteration {target}"))
        res["harness"] = True
    else:
        key = site_key(win.fired, "std")
        res["site"] = key
        if handler_error is not None:
            res["errs"].append(("handler-does-not-exit-with-the-configured-code", handler_error))
        elif exit_code != expected_code or type(exit_code) is not int:
            res["errs"].append(("exit-code", f"{exit_code!r} vs configured {expected_code!r}"))
        inspect_and_continue_std(out, kw, state["pre"], res)
    for s, h in old_handlers.items():
        signal.signal(s, h)
    shutil.rmtree(out, ignore_errors=True)
    return res


def inspect_and_continue_std(out, kw, pre, res):
    from nessai.flowsampler import FlowSampler

    errs = res["errs"]
    runs.reset_globals()
    m2 = make("G2")
    kw2 = copy.deepcopy(kw)
    kw2["signal_handling"] = False
    try:
        fs2 = FlowSampler(m2, output=out, resume=True, **kw2)
    except Exception as e:
        errs.append((f"resume-raises-{type(e).__name__}", str(e)[:300]))
        return
    ns = fs2.ns
    if not getattr(ns, "resumed", False) and ns.live_points is None:
        errs.append(("no-checkpoint-left-by-handler", "resume started a fresh run"))
        return
    nested = ns.nested_samples
    live = ns.live_points
    if len(ns.state.logLs) - 1 != len(nested):
        errs.append(("evidence-state-entries-differ-from-discarded-points", f"{len(ns.state.logLs) - 1} integrated vs {len(nested)} recorded"))
    nb = [r.tobytes() for r in nested]
    if len(set(nb)) != len(nb):
        errs.append(("discarded-point-recorded-twice", ""))
    consumed = False
    unstarted = False
    if res.get("info", {}).get("phase") == "initialise" and live is None:
        # during the initialisation the other consistent form is "nothing sampled yet"
        unstarted = True
        if len(nested) or ns.iteration != 0 or len(ns.insertion_indices):
            errs.append(("initialisation-checkpoint-holds-samples-without-live-points", f"{len(nested)} discarded, iteration {ns.iteration}"))
    elif live is None and res.get("info", {}).get("phase") == "finalise":
        # inside NestedSampler.finalise the other consistent form is "every live point
        # consumed": no live set, the discarded points are exactly the earlier ones plus
        # each final live point once, and only the earlier ones have insertion indices
        consumed = True
        want = rows(pre["live"])
        for r in pre["nested"]:
            want[r.tobytes()] = want.get(r.tobytes(), 0) + 1
        got = {}
        for b in nb:
            got[b] = got.get(b, 0) + 1
        if got != want:
            errs.append(("consumed-live-set-differs", f"{sum(got.values())} recorded vs {sum(want.values())} expected"))
        if len(ns.insertion_indices) != len(pre["nested"]):
            errs.append(("insertion-indices-count", f"{len(ns.insertion_indices)} vs {len(pre['nested'])} replaced"))
        if ns.iteration != len(pre["nested"]):
            errs.append(("iteration-differs-from-replaced-count", f"{ns.iteration} vs {len(pre['nested'])}"))
    elif live is None or len(live) != ns.nlive:
        errs.append(("live-set-size", f"{None if live is None else len(live)}"))
    else:
        lb = [r.tobytes() for r in live]
        if len(set(lb)) != len(lb):
            errs.append(("duplicated-live-point", ""))
        if set(lb) & set(nb):
            errs.append(("point-both-live-and-discarded", f"{len(set(lb) & set(nb))} rows"))
        if np.any(np.diff(live["logL"]) < 0):
            errs.append(("live-set-not-ascending", ""))
    if not consumed and len(ns.insertion_indices) != len(nested):
        errs.append(("insertion-indices-count", f"{len(ns.insertion_indices)} vs {len(nested)} discarded"))
    if not consumed and ns.iteration != len(nested):
        errs.append(("iteration-differs-from-discarded-count", f"{ns.iteration} vs {len(nested)}"))
    # none lost: every point present before the signal is still present exactly once
    if live is not None and pre is not None and res.get("info", {}).get("phase") != "initialise":
        def strip(r):
            r = r.copy()
            return r.tobytes()
        now = rows(live)
        for b in nb:
            now[b] = now.get(b, 0) + 1
        before = rows(pre["live"])
        for r in pre["nested"]:
            before[r.tobytes()] = before.get(r.tobytes(), 0) + 1
        lost = [k for k, v in before.items() if now.get(k, 0) < v]
        extra = sum(v for k, v in now.items() if k not in before)
        if lost:
            errs.append(("point-lost", f"{len(lost)} rows present before the signal are gone"))
        if extra > 1:
            errs.append(("more-than-one-new-point", f"{extra}"))
    # the resumed run completes with a valid result
    mon = StdMonitor()
    try:
        with mon.installed(), runs.std_draw_cap():
            fs2.run(plot=False, save=False)
    except runs.DrawCap as e:
        errs.append(("resumed-run-does-not-terminate", str(e)[:300]))
        return
    except Exception as e:
        errs.append((f"resumed-run-raises-{type(e).__name__}", str(e)[:300]))
        return
    errs += [(f"resumed:{c}", d) for c, d in mon.errs[:2]]
    if consumed and pre is not None:
        # nothing may be drawn or integrated again after the live set was consumed
        n_want = len(pre["nested"]) + len(pre["live"])
        if len(fs2.ns.nested_samples) != n_want:
            errs.append(("resumed-run-changes-the-discarded-points", f"{len(fs2.ns.nested_samples)} vs {n_want}"))
        if len(fs2.ns.state.logLs) - 1 != n_want:
            errs.append(("resumed-run-changes-the-evidence-state", f"{len(fs2.ns.state.logLs) - 1} integrated vs {n_want}"))
    if not errs:
        runs.check_std_results(fs2, m2, errs)


def ins_case(item):
    from nessai.flowsampler import FlowSampler
    from nessai.samplers.importancesampler import ImportanceNestedSampler as INS

    seed, target, fire_at, signum, opcodes, *rest = item
    expected_code, cfg_kwargs = _exit_code_variant(INS_CFG["kwargs"], rest)
    runs.reset_globals()
    out = runs.scratch("c13i")
    kw = runs.ins_base(seed, **cfg_kwargs)
    win = interrupt.Window(core.REPO, fire_at=fire_at, signum=signum)
    state = dict(started=False, stopped=False, ckpt=None, existed=None)
    o_grad, o_fin = INS._compute_gradient, INS.finalise
    old_handlers = {s: signal.getsignal(s) for s in (signal.SIGTERM, signal.SIGINT, signal.SIGALRM)}
    rf = os.path.join(out, "nested_sampler_resume.pkl")

    def grad(ns, *a, **k):
        if not state["started"] and ns.iteration == target:
            state["started"] = True
            state["existed"] = os.path.exists(rf)
            state["ckpt"] = open(rf, "rb").read() if state["existed"] else None
            win.start(extra_frames=[sys._getframe(1)])
        elif state["started"] and not state["stopped"]:
            state["stopped"] = True
            win.stop(extra_frames=[sys._getframe(1)])
        return o_grad(ns, *a, **k)

    def fin(ns, *a, **k):
        if state["started"] and not state["stopped"]:
            state["stopped"] = True
            win.stop(extra_frames=[sys._getframe(1)])
        if target == "fin" and not state["started"]:
            # window over the finalisation, including the forced final checkpoint
            state["started"] = True
            state["existed"] = os.path.exists(rf)
            win.start(extra_frames=[sys._getframe(1)])
            try:
                return o_fin(ns, *a, **k)
            finally:
                if not state["stopped"]:
                    state["stopped"] = True
                    win.stop(extra_frames=[sys._getframe(1)])
        return o_fin(ns, *a, **k)

    o_init = INS.initialise

    def init(ns, *a, **k):
        if target == "init" and not state["started"]:
            # window over the initialisation (initial samples, first evidence update)
            state["started"] = True
            state["existed"] = os.path.exists(rf)
            win.start(extra_frames=[sys._getframe(1)])
            try:
                return o_init(ns, *a, **k)
            finally:
                if not state["stopped"]:
                    state["stopped"] = True
                    win.stop(extra_frames=[sys._getframe(1)])
        return o_init(ns, *a, **k)

    import nessai.samplers.base as sbase

    o_dump = sbase.safe_file_dump

    def dump(data, filename, *a, **k):
        state["pending"] = True
        r = o_dump(data, filename, *a, **k)
        state["pending"] = False
        state["ckpt"] = open(filename, "rb").read()
        state["existed"] = True
        state["ckpt_iteration"] = data.iteration
        return r

    sbase.safe_file_dump = dump
    INS._compute_gradient, INS.finalise, INS.initialise = grad, fin, init
    res = dict(errs=[], fired=None, events=None, info={"phase": "ins"})
    model = make("G2")
    exit_code = None
    handler_error = None
    try:
        fs = FlowSampler(model, output=out, resume=False, **copy.deepcopy(kw))
        try:
            fs.run(plot=False, save=False)
        except SystemExit as e:
            exit_code = e.code
        except Exception as e:
            if win.fired is None:
                raise
            handler_error = f"{type(e).__name__}: {e}"
        finally:
            win.stop()
    except Exception as e:
        INS._compute_gradient, INS.finalise, INS.initialise = o_grad, o_fin, o_init
        sbase.safe_file_dump = o_dump
        for s, h in old_handlers.items():
            signal.signal(s, h)
        shutil.rmtree(out, ignore_errors=True)
        return dict(errs=[(f"harness:{type(e).__name__}", str(e)[:300])], fired=None, events=None, info={}, harness=True)
    finally:
        INS._compute_gradient, INS.finalise, INS.initialise = o_grad, o_fin, o_init
        sbase.safe_file_dump = o_dump
    for s, h in old_handlers.items():
        signal.signal(s, h)
    if fire_at is None:
        res["events"] = win.events
        shutil.rmtree(out, ignore_errors=True)
        return res
    res["fired"] = win.fired
    if win.fired is None:
        res["errs"].append(("harness:site-not-reached", f"event {fire_at}"))
        res["harness"] = True
        shutil.rmtree(out, ignore_errors=True)
        return res
    res["site"] = site_key(win.fired, "ins")
    errs = res["errs"]
    if handler_error is not None:
        errs.append(("handler-does-not-exit-with-the-configured-code", handler_error))
    elif exit_code != expected_code or type(exit_code) is not int:
        errs.append(("exit-code", f"{exit_code!r} vs configured {expected_code!r}"))
    now = open(rf, "rb").read() if os.path.exists(rf) else None
    replaced = False
    if now != state["ckpt"] and state.get("pending") and now is not None:
        # the signal arrived inside the final (iteration-boundary) checkpoint write itself, after
        # the new file was moved into place: the complete new checkpoint is the other legal content
        try:
            import pickle as _p
            _p.loads(now)
            replaced = True
        except Exception as e:
            errs.append(("ins:checkpoint-unreadable-after-signal-during-write", f"{type(e).__name__}: {e}"[:200]))
    if now != state["ckpt"] and not replaced and not errs:
        errs.append(("ins:iteration-boundary-checkpoint-modified", f"existed before: {state['existed']}, exists now: {now is not None}"))
    runs.reset_globals()
    m2 = make("G2")
    kw2 = copy.deepcopy(kw)
    kw2["signal_handling"] = False
    mon = runs.InsMonitor()
    mon.rederived = True
    try:
        with mon.installed(), runs.ins_draw_cap():
            fs2 = FlowSampler(m2, output=out, resume=True, **kw2)
            if state["existed"] and not replaced and fs2.ns.iteration != state.get("ckpt_iteration", target):
                errs.append(("ins:resumed-at-wrong-iteration", f"{fs2.ns.iteration} vs {state.get('ckpt_iteration', target)}"))
            fs2.run(plot=False, save=False)
        errs += [(f"resumed:{c}", d) for c, d in mon.errs[:2]]
        if not errs:
            runs.check_ins_results(fs2, m2, errs)
    except runs.DrawCap as e:
        errs.append(("resumed-run-does-not-terminate", str(e)[:300]))
    except Exception as e:
        errs.append((f"resumed-run-raises-{type(e).__name__}", str(e)[:300]))
    shutil.rmtree(out, ignore_errors=True)
    return res


def run(ctx):
    seed = ctx.seed
    std_targets = ["init", 5, 21, 23, 25, "fin"] if ctx.quick else ["init", 1, 5, 20, 21, 22, 23, 25, 30, 45, 50, "fin"]
    ins_targets = ["init", 1, "fin"] if ctx.quick else ["init", 0, 1, 2, "fin"]
    # counting runs
    count_items = [("std", (seed, t, None, signal.SIGTERM, False)) for t in std_targets] + [("ins", (seed, t, None, signal.SIGTERM, False)) for t in ins_targets]
    # a run that was already terminated once by the handler and resumed
    count_items.append(("std", (seed, ("resumed", 23), None, signal.SIGTERM, False)))
    if not ctx.quick:
        count_items.append(("std", (seed, 23, None, signal.SIGTERM, True)))
    plans = []
    for (kind, item), res in ctx.pmap(_dispatch, count_items):
        if res.get("harness") or res["events"] is None:
            raise core.HarnessError(f"counting run failed: {res['errs']}")
        ev = res["events"]
        idxs = interrupt.dedupe(ev)
        ctx.count("line_events_in_windows", len(ev))
        ctx.count("injection_sites", len(idxs))
        ctx.sample({"sampler": kind, "iteration": item[1], "phase": res["info"], "events": len(ev), "sites_after_dedup": len(idxs), "first_sites": [list(ev[i][:2]) for i in idxs[:4]]}, limit=12)
        sigs = [signal.SIGTERM]
        if isinstance(item[1], (tuple, list)) and ctx.quick:
            idxs = idxs[:: max(1, len(idxs) // 40)]  # quick: a lattice of the sites of the resumed run
        for i in idxs:
            plans.append((kind, (seed, item[1], i, signal.SIGTERM, item[4])))
        if not ctx.quick:
            for i in idxs[:: max(1, len(idxs) // 12)]:
                plans.append((kind, (seed, item[1], i, signal.SIGINT, item[4])))
                plans.append((kind, (seed, item[1], i, signal.SIGALRM, item[4])))
    # exit-code variants at the first site of one mid-run window of each sampler
    for kind, t in (("std", 23), ("ins", 1)):
        first = next((p for k, p in plans if k == kind and p[1] == t), None)
        if first is None:
            raise core.HarnessError(f"no site for the exit-code variants of {kind}")
        for code in EXIT_CODE_VARIANTS:
            plans.append((kind, tuple(first) + (code,)))
            ctx.count("exit_code_variants")
    site_classes = set()
    for (kind, item), res in ctx.pmap(_dispatch, plans):
        ctx.count("evaluations")
        if res.get("harness"):
            raise core.HarnessError(f"injection run failed: {res['errs']} for {kind} {item}")
        site = res.get("site", "?")
        site_classes.add((kind, site))
        seen = set()
        for c, d in res["errs"]:
            if c in seen:
                continue
            seen.add(c)
            chain = [f"{q}:{ln}" for q, ln, src in (res["fired"] or [])][:4]
            label = "inconsistent-after-signal" if len(item) <= 5 else f"exit-code-variant={item[5]}"
            ctx.violation(f"{kind}:{label}@{site}", f"{c}: {d} | signal {int(item[3])} before line [{site}] (iteration {item[1]}, frames {chain})", {"kind": kind, "item": [x if isinstance(x, (bool, str, list, tuple)) or x is None else int(x) for x in item]})
            break
    ctx.set("distinct_nontrivial", len(site_classes))
    ctx.set("rule", "signal handler invoked before every line event of every nessai frame inside the chosen iterations, inside the initialisation of a fresh run of either sampler ('init': NestedSampler.initialise / ImportanceNestedSampler.initialise, i.e. proposals and initial points) and inside the finalisation of both samplers ('fin': from entry to NestedSampler.finalise / ImportanceNestedSampler.finalise until it returns, including the forced final checkpoint write) (loop bodies de-duplicated to first/second/last occurrence of each (function, line)); plus an iteration of a run that had already been terminated once by the handler and resumed (quick: a lattice of 40 of its sites); thorough adds more iterations, opcode-level events in consume_sample / insert_live_point / _NSIntegralState.increment and SIGINT/SIGALRM on a sub-lattice. Distinct/non-trivial: distinct sampler-level statements (site keys) interrupted")
    ctx.set("bounds", dict(std_iterations=std_targets, ins_iterations=ins_targets, signals=["SIGTERM"] + ([] if ctx.quick else ["SIGINT", "SIGALRM"])))
    ctx.set("exhaustive", True)
    ctx.assume(
        "line-level granularity (opcode level inside the commit functions in thorough): a signal is modelled as the handler running just before a source line executes",
        "sites inside loops are de-duplicated to the first, second and last occurrence per iteration (the loop bodies touch only pool scratch arrays)",
        "known finding: the standard sampler's handler pickles a half-updated sampler when the signal arrives inside consume_sample between the removal and the insertion (no small repair: needs a deferred handler or a transactional iteration)",
    )


def _dispatch(x):
    kind, item = x
    return std_case(item) if kind == "std" else ins_case(item)


def replay(ctx, data):
    item = tuple(data["item"])
    res = _dispatch((data["kind"], item))
    return [f"{c}: {d} at {res.get('site')}" for c, d in res["errs"]]
