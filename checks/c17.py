"""C17 - INS level thresholds honour min_samples, min_remove and max_samples.

Phase A (method's own choice): every tie pattern x every logW word over a
4-letter alphabet x every method setting, calling the real
`determine_threshold_{entropy,quantile}`; the weighted quantile is compared
with an independent Harrell-Davis implementation and checked for monotonicity,
range and the equal-weight reduction.
Phase B (clamps): for every live-set size, every own-choice index k found in
phase A (one representative input per (size, k, method)) and the complete
lattice of (min_samples, min_remove, max_samples, draw_constant, nlive), the
real `determine_log_likelihood_threshold` is called and its answer checked.
The full product (every input x every clamp setting) is run for sizes <= 3 to
validate the reduction.
"""
import itertools
import math
import os
import tempfile

import numpy as np

LEVEL = "exploration"

LOGW = [float("-inf"), -5.0, -1.0, 0.0]
ENT = [dict(q=q, include_likelihood=il, use_log_weights=ulw) for q in (0.1, 0.5, 0.9) for il in (False, True) for ulw in (True, False)]
QNT = [dict(q=q, include_likelihood=il) for q in (0.0, 0.2, 0.5, 0.8, 1.0) for il in (False, True)]

_SAMPLER = None


def sampler():
    """One real ImportanceNestedSampler per worker; attributes are set per case."""
    global _SAMPLER
    if _SAMPLER is None:
        from nessai.samplers.importancesampler import ImportanceNestedSampler
        from nessai.livepoint import reset_extra_live_points_parameters
        from mc.tinymodels import make

        reset_extra_live_points_parameters()
        out = tempfile.mkdtemp(prefix="nessai-verif-c17-")
        _SAMPLER = ImportanceNestedSampler(make("G2"), nlive=10, min_samples=2, output=out, plot=False, checkpointing=False, seed=1)
        import shutil

        shutil.rmtree(out, ignore_errors=True)
    return _SAMPLER


def tie_patterns(n):
    """All weakly increasing logL vectors up to order-isomorphism (compositions of n)."""
    out = []
    for cuts in itertools.product((0, 1), repeat=n - 1):
        v, cur = [0.0], 0.0
        for c in cuts:
            cur += 1.0 * c
            v.append(cur)
        out.append(tuple(v))
    return out


def make_samples(logl, logw):
    from nessai.livepoint import get_dtype

    s = np.zeros(len(logl), dtype=get_dtype(["x0", "x1"]))
    s["logL"] = logl
    s["logW"] = logw
    return s


def hd_quantile(values, q, logw):
    """Independent Harrell-Davis weighted quantile (mpmath regularised incomplete beta)."""
    import mpmath as mp

    mp.mp.dps = 30
    w = [mp.exp(v) if math.isfinite(v) else mp.mpf(0) for v in logw]
    s = sum(w)
    w = [x / s for x in w]
    neff = 1 / sum(x * x for x in w)
    a = mp.mpf(q) * (neff + 1)
    b = (1 - mp.mpf(q)) * (neff + 1)
    if a == 0 or b == 0:
        return None  # q = 0 or 1: the beta weights degenerate; only range/monotonicity are checked
    cdf = [mp.mpf(0)]
    for x in w:
        cdf.append(cdf[-1] + x)
    tot = mp.mpf(0)
    for i, v in enumerate(values):
        lo = mp.betainc(a, b, 0, min(cdf[i], 1), regularized=True)
        hi = mp.betainc(a, b, 0, min(cdf[i + 1], 1), regularized=True)
        tot += (hi - lo) * mp.mpf(v)
    return float(tot)


def phase_a(item):
    n, words = item
    from nessai.utils.stats import weighted_quantile

    s = sampler()
    s.plot = False
    errs = []
    reps = {}
    ncalls = 0
    ties = tie_patterns(n)
    for logw in words:
        for logl in ties:
            smp = make_samples(logl, logw)
            for mi, kw in enumerate(ENT):
                try:
                    _s0 = smp.tobytes()
                    k = s.determine_threshold_entropy(smp, **kw)
                    if smp.tobytes() != _s0:
                        errs.append(("entropy-modifies-its-input-arrays", f"logL={logl} logW={logw} {kw}"))
                        smp = make_samples(logl, logw)
                except Exception as e:
                    errs.append((f"entropy-raises-{type(e).__name__}", f"{e} logL={logl} logW={logw} {kw}"))
                    continue
                ncalls += 1
                if not (isinstance(k, int) and 0 <= k < n):
                    errs.append(("entropy-index-out-of-range", f"k={k} logL={logl} logW={logw} {kw}"))
                    continue
                reps.setdefault((n, k, "entropy"), (logl, logw, kw))
            qs = []
            for mi, kw in enumerate(QNT):
                lw = np.array(logw) + (np.array(logl) if kw["include_likelihood"] else 0.0)
                try:
                    _s0, _v, _w = smp.tobytes(), np.array(logl, dtype=float), np.array(lw, dtype=float)
                    _v0, _w0 = _v.tobytes(), _w.tobytes()
                    k = s.determine_threshold_quantile(smp, **kw)
                    cut = float(weighted_quantile(_v, kw["q"], log_weights=_w, values_sorted=True)[0])
                    if smp.tobytes() != _s0 or _v.tobytes() != _v0 or _w.tobytes() != _w0:
                        errs.append(("quantile-modifies-its-input-arrays", f"logL={logl} logW={logw} {kw}"))
                        smp = make_samples(logl, logw)
                except Exception as e:
                    errs.append((f"quantile-raises-{type(e).__name__}", f"{e} logL={logl} logW={logw} {kw}"))
                    continue
                ncalls += 1
                if not (isinstance(k, int) and 0 <= k < n):
                    errs.append(("quantile-index-out-of-range", f"k={k} logL={logl} logW={logw} {kw}"))
                    continue
                reps.setdefault((n, k, "quantile"), (logl, logw, kw))
                if not kw["include_likelihood"]:
                    qs.append((kw["q"], cut))
                # log-weights are only defined up to a constant: large common offsets (beyond the
                # range of exp) must not change the quantile
                for off in (((2000.0, -1.0e5) if mi % 2 == 0 else (-2000.0, 1.0e5))):
                    try:
                        with np.errstate(all="ignore"):
                            cs = float(weighted_quantile(np.array(logl), kw["q"], log_weights=lw + off, values_sorted=True)[0])
                    except Exception as e:
                        errs.append((f"quantile-with-offset-weights-raises-{type(e).__name__}", f"{e} offset={off} logL={logl} logW={logw} {kw}"))
                        continue
                    if not (abs(cs - cut) <= 1e-9 * (1 + abs(cut))):
                        errs.append(("weighted-quantile-changes-under-a-constant-offset-of-the-log-weights", f"{cs} vs {cut} offset={off} logL={logl} logW={logw} {kw}"))
                if not (min(logl) - 1e-12 <= cut <= max(logl) + 1e-12):
                    errs.append(("weighted-quantile-outside-data-range", f"{cut} logL={logl} logW={logw} {kw}"))
                ref = None
                if n <= 4 or len(set(logl)) == n:
                    ref = hd_quantile(logl, kw["q"], lw.tolist())
                if ref is not None and abs(ref - cut) > 1e-9 * (1 + abs(ref)):
                    errs.append(("weighted-quantile-vs-independent-harrell-davis", f"{cut} vs {ref} logL={logl} logW={logw} {kw}"))
                if ref is not None:
                    # own index = first position at or above the quantile value
                    lo = [i for i, v in enumerate(logl) if v >= ref - 1e-9]
                    hi = [i for i, v in enumerate(logl) if v >= ref + 1e-9]
                    lo = lo[0] if lo else 0
                    ok = (lo <= k <= hi[0]) if hi else (k in (lo, 0))
                    if not ok:
                        errs.append(("quantile-index-not-first-at-or-above-quantile", f"k={k} quantile={ref} logL={logl} logW={logw} {kw}"))
            qs.sort()
            for (q1, c1), (q2, c2) in zip(qs, qs[1:]):
                if c2 < c1 - 1e-12:
                    errs.append(("weighted-quantile-not-monotone", f"q={q1}->{c1}, q={q2}->{c2} logL={logl} logW={logw}"))
    return dict(errs=errs, reps=reps, ncalls=ncalls)


def equal_weight_checks(nmax):
    from scipy.stats.mstats import hdquantiles
    from nessai.utils.stats import weighted_quantile

    errs = []
    n_eval = 0
    for n in range(2, nmax + 1):
        for logl in tie_patterns(n):
            vals = np.array(logl) * 1.7 - 0.3
            for q in (0.1, 0.2, 0.5, 0.8, 0.9):
                a = float(weighted_quantile(vals, q)[0])
                for c in (0.0, -3.0, 500.0, -2000.0, 1.0e5):
                    b = float(weighted_quantile(vals, q, log_weights=np.full(n, c))[0])
                    # normalising log-weights of magnitude |c| costs eps*|c| of relative accuracy
                    if abs(a - b) > (1e-12 + 8 * 2.0 ** -52 * abs(c)) * (1 + abs(a)):
                        errs.append(("equal-weights-differ-from-unweighted", f"{a} vs {b} values={vals} q={q} c={c}"))
                ref = float(hdquantiles(vals, prob=[q])[0])
                n_eval += 1
                if abs(a - ref) > 1e-9 * (1 + abs(ref)):
                    errs.append(("equal-weights-not-ordinary-harrell-davis", f"{a} vs scipy {ref} values={vals} q={q}"))
                # unsorted input gives the same answer
                perm = vals[::-1].copy()
                c2 = float(weighted_quantile(perm, q, log_weights=np.zeros(n))[0])
                if abs(c2 - a) > 1e-12 * (1 + abs(a)):
                    errs.append(("weighted-quantile-depends-on-input-order", f"{a} vs {c2}"))
    return errs, n_eval


def clamp_lattice(n):
    nlives = (2, 5)
    for ms in range(1, n + 2):
        for mr in range(1, max(2, n)):
            for nlive in nlives:
                for dc in (True, False):
                    caps = [None] + sorted({m for m in range(nlive + 1, nlive + n + 1)})
                    for cap in caps:
                        yield ms, mr, nlive, dc, cap


def check_clamp(s, smp, k_own, method, kw, ms, mr, nlive, dc, cap, errs, ctx_txt):
    n = smp.size
    s.min_samples, s.min_remove, s.max_samples, s.draw_constant, s.nlive = ms, mr, cap, dc, nlive
    smp0 = smp.tobytes()
    try:
        thr = s.determine_log_likelihood_threshold(smp, method=method, **kw)
    except Exception as e:
        errs.append((f"clamp-raises-{type(e).__name__}", f"{e} {ctx_txt}"))
        return
    if smp.tobytes() != smp0:
        errs.append(("threshold-choice-modifies-the-samples-it-is-given", ctx_txt))
        return
    thr = float(thr)
    pos = [i for i in range(n) if smp["logL"][i] == thr]
    if not pos:
        errs.append(("threshold-not-a-live-logL", f"{thr} {ctx_txt}"))
        return
    # positions: the implementation removes the first `m` positions; with ties any
    # position carrying this value is consistent with the returned value
    k1 = max(k_own, 1)
    cap_active = bool(dc and cap)
    if n - k1 < ms:
        nb_ref = max(0, n - ms)
        base_ok = nb_ref in pos
        clause = "exactly-min_samples-kept"
    else:
        nb_ref = max(k1, mr)
        base_ok = any(p >= mr for p in pos)
        clause = "at-least-min_remove-removed"
    if cap_active:
        if not any((n - p) + nlive <= cap for p in pos):
            errs.append(("next-level-exceeds-max_samples", f"thr={thr} {ctx_txt}"))
            return
        if (n - nb_ref) + nlive > cap:
            return  # the cap overrides the base rule
    if not base_ok:
        errs.append((clause, f"thr={thr} positions={pos} own={k_own} {ctx_txt}"))


def phase_b(item):
    reps, full = item
    s = sampler()
    s.plot = False
    errs = []
    ncalls = 0
    outcomes = set()
    for (n, k, method), (logl, logw, kw) in reps:
        smp = make_samples(logl, logw)
        for ms, mr, nlive, dc, cap in clamp_lattice(n):
            if mr > n - 1 and n > 1:
                continue
            if n == 1 and mr > 1:
                continue
            if dc and cap is not None and not (0 <= n - cap + nlive <= n - 1):
                # cap would need a removal count outside the live set: outside the contract
                continue
            txt = f"n={n} logL={logl} logW={logw} method={method} {kw} min_samples={ms} min_remove={mr} nlive={nlive} draw_constant={dc} max_samples={cap}"
            before = len(errs)
            check_clamp(s, smp, k, method, kw, ms, mr, nlive, dc, cap, errs, txt)
            ncalls += 1
            outcomes.add((n, k, ms > n - max(k, 1), mr > max(k, 1), bool(dc and cap)))
    return dict(errs=errs, ncalls=ncalls, outcomes=outcomes)


def run(ctx):
    nmax = 5 if ctx.quick else 7
    items = []
    for n in range(1, nmax + 1):
        ws = [w for w in itertools.product(LOGW, repeat=n) if any(math.isfinite(v) for v in w)]
        step = max(1, len(ws) // 48)
        for i in range(0, len(ws), step):
            items.append((n, ws[i : i + step]))
    reps = {}
    evals = 0
    for it, res in ctx.pmap(phase_a, items):
        evals += res["ncalls"]
        for k, d in res["errs"][:3]:
            ctx.violation(k, d, {"case": d})
        for k, v in res["reps"].items():
            if k not in reps or (v[1], v[0]) < (reps[k][1], reps[k][0]):
                reps[k] = v
    eq_errs, n_eq = equal_weight_checks(nmax + 1)
    evals += n_eq
    for k, d in eq_errs[:3]:
        ctx.violation(k, d, {"case": d})
    # phase B
    rep_items = sorted(reps.items(), key=lambda kv: (kv[0][0], kv[0][1], kv[0][2]))
    chunks = [rep_items[i : i + 2] for i in range(0, len(rep_items), 2)]
    outcomes = set()
    for it, res in ctx.pmap(phase_b, [(c, False) for c in chunks]):
        evals += res["ncalls"]
        outcomes |= res["outcomes"]
        seen = set()
        for k, d in res["errs"]:
            if k not in seen:
                seen.add(k)
                ctx.violation(k, d, {"case": d})
    # validation of the reduction: full product for sizes <= 3
    full_items = []
    for n in range(1, 4):
        for logw in itertools.product(LOGW, repeat=n):
            if not any(math.isfinite(v) for v in logw):
                continue
            full_items.append((n, logw))
    for it, res in ctx.pmap(full_small, [full_items[i::16] for i in range(16)]):
        evals += res["ncalls"]
        for k, d in res["errs"][:3]:
            ctx.violation(k, d, {"case": d})
    # real runs: every proposal is trained on at least min_samples samples
    from mc import runs

    trained = 0
    for cfg, res in ctx.pmap(real_worker, runs.ins_lattice(ctx.seed, True, resume_subsets=False)):
        evals += 1
        trained += len(res.get("train_sizes", []))
        for c, d in res["errs"]:
            if c == "proposal-trained-on-fewer-than-min_samples":
                ctx.violation(f"{c}@{res['key']}", f"{c}: {d} (config {cfg})", {"case": str(cfg)})
    ctx.set("trainings_monitored_in_real_runs", trained)
    ctx.set("evaluations", evals)
    ctx.set("distinct_nontrivial", len(outcomes))
    ctx.set("own_choice_classes", len(reps))
    ctx.set("rule", "phase A: all tie patterns x all logW words (>=1 finite) x 12 entropy + 10 quantile settings on the real methods; phase B: per (size, own index k, method) representative x full lattice of (min_samples 1..n+1, min_remove 1..n-1, nlive {2,5}, draw_constant, max_samples None|nlive+1..nlive+n). Non-trivial/distinct: distinct (size, k, min_samples-clamp-active, min_remove-clamp-active, cap-active) classes exercised")
    ctx.set("bounds", dict(max_live_set_size=nmax, logW_letters=[repr(v) for v in LOGW]))
    ctx.set("exhaustive", True)
    ctx.sample({"size": 3, "logL": [0.0, 0.0, 1.0], "logW": [-5.0, 0.0, -1.0], "method": "quantile", "kwargs": QNT[3], "clamps": "min_samples=2 min_remove=1 nlive=2 draw_constant=True max_samples=4"})
    ctx.assume(
        "min_remove <= size-1 (otherwise no live sample can be the threshold) and caps that need a removal count inside the live set",
        "counts are stated on positions of the sorted live set; with ties any position carrying the returned value is accepted",
        "all -inf weight vectors are excluded (no weight at all)",
    )


def real_worker(cfg):
    from mc import runs

    return runs.run_ins_case(cfg, want=())


def full_small(items):
    s = sampler()
    s.plot = False
    errs = []
    ncalls = 0
    for n, logw in items:
        for logl in tie_patterns(n):
            smp = make_samples(logl, logw)
            for method, kws in (("entropy", ENT), ("quantile", QNT)):
                for kw in kws:
                    try:
                        k = getattr(s, f"determine_threshold_{method}")(smp, **kw)
                    except Exception:
                        continue
                    for ms, mr, nlive, dc, cap in clamp_lattice(n):
                        if (mr > n - 1 and n > 1) or (n == 1 and mr > 1):
                            continue
                        if dc and cap is not None and not (0 <= n - cap + nlive <= n - 1):
                            continue
                        txt = f"n={n} logL={logl} logW={logw} method={method} {kw} min_samples={ms} min_remove={mr} nlive={nlive} draw_constant={dc} max_samples={cap}"
                        check_clamp(s, smp, k, method, kw, ms, mr, nlive, dc, cap, errs, txt)
                        ncalls += 1
    return dict(errs=errs, ncalls=ncalls)


def replay(ctx, data):
    return [f"stored case: {data.get('case')}"]
