"""C02 - evidence and posterior weights equal the documented NS quadrature.

Bounded-exhaustive enumeration of every non-decreasing logL word over a small
alphabet (ties, leading -inf) x live-count schedules x both shrinkage modes x
affine images (offsets up to 1e5, scales 1e-8..1e4); the incremental integrator
(`_NSIntegralState`), the one-pass `compute_weights` and a 50-digit mpmath
evaluation of the documented quadrature must agree.
"""
import itertools
import math

import numpy as np

LEVEL = "exploration"

LETTERS = [float("-inf"), -3.0, -1.0, 0.0, 2.0]
SCALES = [1.0, 1e-8, 1e4]
OFFSETS = [0.0, 1e3, -1e3, 1e5, -1e5]
EPS = np.finfo(float).eps


def words(maxlen, minlen=1):
    for ell in range(minlen, maxlen + 1):
        for w in itertools.combinations_with_replacement(LETTERS, ell):
            if any(math.isfinite(v) for v in w):
                yield w


def default_schedule(n, nlive):
    s = [float(nlive)] * n
    for k in range(min(nlive, n)):
        s[n - 1 - k] = float(k + 1)
    return s


def mp_quadrature(logls, sched, expectation):
    """Documented quadrature at 50 digits.  Returns (logZ_rect, logZ_trap, log_vols, log_w)."""
    import mpmath as mp

    mp.mp.dps = 50
    N = len(logls)
    X = [mp.mpf(1)]
    lv = [mp.mpf(0)]
    for n in sched:
        n = mp.mpf(n)
        logt = -1 / n if expectation == "logt" else -mp.log(1 + 1 / n)
        lv.append(lv[-1] + logt)
        X.append(mp.exp(lv[-1]))
    L = [mp.mpf(0)] + [mp.exp(mp.mpf(l)) if math.isfinite(l) else mp.mpf(0) for l in logls]
    # factor out the maximum so that exp never overflows
    m = max(l for l in logls if math.isfinite(l))
    Ls = [mp.mpf(0)] + [mp.exp(mp.mpf(l) - mp.mpf(m)) if math.isfinite(l) else mp.mpf(0) for l in logls]
    rect = sum(Ls[i] * (X[i - 1] - X[i]) for i in range(1, N + 1))
    Xc = X + [mp.mpf(0)]
    Lc = Ls + [Ls[-1]]
    trap = sum((Lc[k] + Lc[k + 1]) / 2 * (Xc[k] - Xc[k + 1]) for k in range(0, N + 1))
    logZ_rect = mp.log(rect) + m if rect > 0 else mp.mpf("-inf")
    logZ_trap = mp.log(trap) + m
    logw = []
    for i in range(1, N + 1):
        if Ls[i] == 0:
            logw.append(float("-inf"))
        else:
            logw.append(float(mp.mpf(logls[i - 1]) + mp.log(X[i - 1] - X[i]) - logZ_trap))
    return float(logZ_rect), float(logZ_trap), [float(v) for v in lv], logw


def run_impl(logls, sched, expectation, nlive, int_schedule):
    """Run both implementations. Returns dict of outputs."""
    from nessai.evidence import _NSIntegralState
    from nessai.posterior import compute_weights

    st = _NSIntegralState(nlive, expectation=expectation)
    # twin: the same increments with reads and an early finalise() interleaved after every
    # prefix length in `early` - refining the estimate mid-way must not change anything later
    twin = _NSIntegralState(nlive, expectation=expectation)
    early = {len(logls) // 2, max(1, len(logls) - 1)}
    for i_, (l, n) in enumerate(zip(logls, sched)):
        for s_ in (st, twin):
            # a count equal to the state's own nlive is passed implicitly (default argument), any other
            # explicitly: per-iteration schedules therefore mix default and explicit calls in every order
            if float(n) == float(nlive):
                s_.increment(l)
            else:
                s_.increment(l, nlive=n if not float(n).is_integer() else int(n))
        if (i_ + 1) in early and (i_ + 1) < len(logls):
            with np.errstate(all="ignore"):
                _ = np.array(twin.log_posterior_weights, copy=True)
                _ = twin.effective_n_posterior_samples
                twin.finalise()
                _ = np.array(twin.log_posterior_weights, copy=True)
    with np.errstate(all="ignore"):
        # (the running rectangle-rule logZ legitimately restarts from the refined value after a
        # finalise(); volumes, weights and the final trapezoid must not notice)
        twin_ok = (
            [float(v) for v in twin.log_vols] == [float(v) for v in st.log_vols]
            and np.array(twin.log_posterior_weights, dtype=float).tobytes() == np.array(st.log_posterior_weights, dtype=float).tobytes()
        )
    rect = float(st.logZ)
    vols = [float(v) for v in st.log_vols]
    # reads must be idempotent and must not disturb one another, in any order
    pre_w = np.array(st.log_posterior_weights, dtype=float, copy=True)
    ess0 = float(st.effective_n_posterior_samples)
    pre_w2 = np.array(st.log_posterior_weights, dtype=float, copy=True)
    trap = float(st.finalise())
    lw = np.array(st.log_posterior_weights, dtype=float, copy=True)
    ess1 = float(st.effective_n_posterior_samples)
    _ = st.log_evidence_error
    lw2 = np.array(st.log_posterior_weights, dtype=float, copy=True)
    ess2 = float(st.effective_n_posterior_samples)
    reads_ok = (
        pre_w.tobytes() == pre_w2.tobytes()
        and lw.tobytes() == lw2.tobytes()
        and (ess1 == ess2 or (ess1 != ess1 and ess2 != ess2))
        and float(st.logZ) == trap
    )
    with np.errstate(all="ignore"):
        twin_ok = twin_ok and float(twin.finalise()) == trap and np.array(twin.log_posterior_weights, dtype=float).tobytes() == lw.tobytes()
    _a = np.array(logls)
    _a0 = _a.tobytes()
    # the same values handed over in other legal containers / dtypes (integer-valued words also as
    # integer arrays and python lists) must give the same answer
    variants_ok = True
    if int_schedule:
        alts = [list(float(v) for v in logls), tuple(float(v) for v in logls)]
        if all(np.isfinite(v) and float(v).is_integer() and abs(v) < 2**31 for v in logls):
            alts += [np.array(logls, dtype=np.int64), [int(v) for v in logls], np.array(logls, dtype=np.int32)]
        try:
            z_ref, w_ref = compute_weights(np.array(logls, dtype=float), nlive, expectation=expectation)
            for alt in alts:
                with np.errstate(all="ignore"):
                    z_alt, w_alt = compute_weights(alt, nlive, expectation=expectation)
                if float(z_alt) != float(z_ref) or np.asarray(w_alt, dtype=float).tobytes() != np.asarray(w_ref, dtype=float).tobytes():
                    variants_ok = False
        except Exception:
            variants_ok = False
    if int_schedule:
        z1, w1 = compute_weights(_a, nlive, expectation=expectation)
    else:
        _n = np.array(sched, dtype=float)
        _n0 = _n.tobytes()
        z1, w1 = compute_weights(_a, _n, expectation=expectation)
        reads_ok = reads_ok and _n.tobytes() == _n0
    reads_ok = reads_ok and _a.tobytes() == _a0
    return dict(rect=rect, vols=vols, trap=trap, lw=lw, z1=float(z1), w1=np.asarray(w1, dtype=float), reads_ok=reads_ok, twin_ok=twin_ok, variants_ok=variants_ok, ess=ess1,
                logZ_attr=float(st.logZ), log_evidence=float(st.log_evidence))


def close(a, b, tol):
    if a == b:
        return True
    if math.isinf(a) or math.isinf(b) or math.isnan(a) or math.isnan(b):
        return False
    return abs(a - b) <= tol


def check_case(logls, sched, expectation, nlive, int_schedule, errs, label):
    N = len(logls)
    fin = [l for l in logls if math.isfinite(l)]
    try:
        out = run_impl(logls, sched, expectation, nlive, int_schedule)
    except Exception as e:
        errs.append((f"raises-{type(e).__name__}:{label}", f"{e} on logL={logls} sched={sched} {expectation}"))
        return None
    # the oracle follows the mode that was asked for (spelling is case-insensitive by nessai's validation)
    rect, trap, vols, lw = mp_quadrature(logls, sched, str(expectation).lower())
    scale = 1 + max(abs(v) for v in fin) + abs(trap)
    tol = 64 * EPS * (N + 2) * scale
    ctxt = f"logL={list(logls)} sched={sched} expectation={expectation}"
    if not close(out["rect"], rect, tol):
        errs.append((f"incremental-rectangle-logZ:{label}", f"{out['rect']!r} vs mpmath {rect!r} ({ctxt})"))
    if not close(out["trap"], trap, tol):
        errs.append((f"incremental-trapezoid-logZ:{label}", f"{out['trap']!r} vs mpmath {trap!r} ({ctxt})"))
    if not out["variants_ok"]:
        errs.append((f"one-pass-weights-depend-on-the-container-or-dtype-of-the-log-likelihoods:{label}", ctxt))
    if not out["twin_ok"]:
        errs.append((f"an-early-finalise-or-read-changes-what-is-accumulated-afterwards:{label}", ctxt))
    if not out["reads_ok"]:
        errs.append((f"reading-weights-ess-evidence-is-not-idempotent-or-an-input-array-was-modified:{label}", ctxt))
    if out["logZ_attr"] != out["trap"] or out["log_evidence"] != out["trap"]:
        errs.append((f"finalise-return-vs-attribute:{label}", ctxt))
    if not close(out["z1"], trap, tol):
        errs.append((f"onepass-logZ:{label}", f"{out['z1']!r} vs mpmath {trap!r} ({ctxt})"))
    if len(out["vols"]) != N + 1 or out["vols"][0] != 0.0:
        errs.append((f"log_vols-start-at-0:{label}", ctxt))
    elif any(b >= a for a, b in zip(out["vols"], out["vols"][1:])):
        errs.append((f"log_vols-strictly-decreasing:{label}", f"{out['vols']} ({ctxt})"))
    elif any(not close(a, b, 16 * EPS * (N + 1) * (1 + abs(b))) for a, b in zip(out["vols"], vols)):
        errs.append((f"log_vols-values:{label}", f"{out['vols']} vs {vols} ({ctxt})"))
    for name, w in (("incremental-weights", out["lw"]), ("onepass-weights", out["w1"])):
        if len(w) != N:
            errs.append((f"{name}-length:{label}", ctxt))
            continue
        for i in range(N):
            if not close(float(w[i]), lw[i], tol):
                errs.append((f"{name}:{label}", f"w[{i}]={w[i]!r} vs mpmath {lw[i]!r} ({ctxt})"))
                break
    if any(math.isnan(v) for v in [out["rect"], out["trap"], out["z1"]]) or not math.isfinite(out["trap"]):
        errs.append((f"non-finite-evidence:{label}", ctxt))
    if np.any(np.isnan(out["lw"])) or np.any(np.isnan(out["w1"])) or np.any(np.isposinf(out["lw"])):
        errs.append((f"nan-weights:{label}", ctxt))
    return out, tol


def worker(item):
    kind, payload = item
    errs = []
    n = 0
    nontrivial = set()
    if kind == "words":
        nlive, ws = payload
        for w in ws:
            if len(w) < nlive:
                continue
            sched = default_schedule(len(w), nlive)
            for expectation in ("logt", "t") + (("LogT", "LOGT", "T") if nlive == 2 else ()):
                base = None
                for a in SCALES:
                    for c in OFFSETS:
                        img = tuple(a * v + c if math.isfinite(v) else v for v in w)
                        if any(x > y for x, y in zip(img, img[1:])):
                            continue
                        label = f"{expectation}:default-schedule"
                        r = check_case(img, sched, expectation, nlive, True, errs, label)
                        n += 1
                        if r is None:
                            continue
                        out, tol = r
                        if len(set(w)) > 1:
                            nontrivial.add((w, nlive, expectation, a, c))
                        if c == 0.0:
                            base = (a, out, tol)
                        elif base is not None and base[0] == a:
                            # shift property: logZ shifts by c, weights unchanged
                            t = 64 * EPS * (len(w) + 2) * (1 + abs(c) + abs(base[1]["trap"]) + max(abs(v) for v in img if math.isfinite(v)))
                            if not close(out["trap"] - c, base[1]["trap"], t) or not close(out["z1"] - c, base[1]["z1"], t):
                                errs.append((f"shift-logZ:{expectation}", f"shift {c} of {w} scale {a}: {out['trap']!r} vs {base[1]['trap']!r}+c"))
                            for u, v in zip(out["lw"], base[1]["lw"]):
                                if not close(float(u), float(v), t):
                                    errs.append((f"shift-weights:{expectation}", f"shift {c} of {w} scale {a}: {u!r} vs {v!r}"))
                                    break
    elif kind == "schedules":
        ws, alphabet = payload
        for w in ws:
            for sched in itertools.product(alphabet, repeat=len(w)):
                for expectation in ("logt", "t"):
                    label = f"{expectation}:per-iteration-schedule"
                    check_case(w, [float(s) for s in sched], expectation, 3, False, errs, label)
                    n += 1
                    if len(set(sched)) > 1:
                        nontrivial.add((w, sched, expectation))
    elif kind == "long":
        name, N, nlive = payload
        x = np.arange(N, dtype=float)
        logls = {
            "constant": np.zeros(N),
            "linear": -1e5 + 2e5 * x / N,
            "geometric": -1e5 * 0.99 ** x,
            "tiny-range": 1e-12 * x,
            # the likelihood rises as fast as / faster than the volume shrinks: the evidence lies
            # N (resp. N/nlive) nats below the largest log-likelihood, far beyond the range of exp
            "ridge": 1.0 * x / nlive,
            "steep": 2.0 * x / nlive,
        }[name]
        for expectation in ("logt", "t"):
            check_case(tuple(float(v) for v in logls), default_schedule(N, nlive), expectation, nlive, True, errs, f"{expectation}:long-{name}")
            n += 1
            nontrivial.add((name, N, nlive, expectation))
    seen = set()
    viol = []
    for k, d in errs:
        if k not in seen:
            seen.add(k)
            viol.append((k, d, {"case": d}))
    return {"counts": {"evaluations": n}, "violations": viol, "nontrivial": len(nontrivial)}


def run(ctx):
    L = 6 if ctx.quick else 9
    Ls = 4 if ctx.quick else 6
    items = []
    allw = list(words(L))
    for nlive in (1, 2, 3, 5):
        ws = [w for w in allw if len(w) >= nlive]
        k = max(1, len(ws) // 24)
        for i in range(0, len(ws), k):
            items.append(("words", (nlive, ws[i : i + k])))
    sw = list(words(Ls))
    k = max(1, len(sw) // 32)
    for i in range(0, len(sw), k):
        items.append(("schedules", (sw[i : i + k], (1, 2, 3))))
    longN = [1000] if ctx.quick else [1000, 20000]
    for N in longN:
        for name in ("constant", "linear", "geometric", "tiny-range"):
            items.append(("long", (name, N, 5 if N == 1000 else 50)))
    for name, N, nl in (("ridge", 1000, 1), ("steep", 1000, 1), ("steep", 1600, 2), ("ridge", 1200, 1)):
        items.append(("long", (name, N, nl)))
    nontrivial = 0
    for it, res in ctx.pmap(worker, items):
        ctx.merge(res)
        nontrivial += res["nontrivial"]
    ctx.set("distinct_nontrivial", nontrivial)
    ctx.set("rule", "every non-decreasing word over the logL letters (length <= L, >= 1 finite letter) x nlive {1,2,3,5} x default schedule x {logt,t} x 15 affine images; every per-iteration schedule over {1,2,3} for words of length <= Ls; fixed long sequences (constant, linear over 2e5, geometric, tiny range, and ridge / steep sequences whose evidence lies > 750 nats below the largest log-likelihood). Non-trivial: word with >= 2 distinct letters / schedule with >= 2 distinct counts; distinct by (word, nlive|schedule, expectation, image)")
    ctx.set("bounds", dict(letters=[repr(v) for v in LETTERS], max_len=L, max_len_schedules=Ls, nlive=[1, 2, 3, 5], scales=SCALES, offsets=OFFSETS, long=longN))
    ctx.set("exhaustive", True)
    ctx.sample({"word": list(allw[7]), "nlive": 2, "schedule": default_schedule(len(allw[7]), 2)})
    ctx.sample({"word": [repr(v) for v in allw[-1]], "nlive": 5})
    ctx.assume(
        "oracle: mpmath at 50 digits of the documented quadrature; tolerance 64*eps*(N+2)*(1+max|logL|+|logZ|)",
        "magnitudes up to 1e5 as the property states; lengths beyond the bound only through the fixed long sequences",
    )


def replay(ctx, data):
    return [f"stored case: {data.get('case')}"]
