"""C19 - saved results read back equal to the in-memory results.

Real result dictionaries of both samplers (converged, prior-only, capped) are
saved through `FlowSampler.save_results` in JSON and HDF5 under every spelling
of the extension, read back with the standard readers and compared field by
field; generated dictionaries nest every value type of the alphabet inside
dicts and lists to depth 2; the start-up configuration file is written for
keyword arguments holding non-serialisable values and read back with json.
"""
import functools
import itertools
import copy
import json
import math
import os
import shutil

import numpy as np

from mc import runs

LEVEL = "exploration"


# ---------------------------------------------------------------------------------
# type-aware equality


def _is_none_marker(v):
    if isinstance(v, bytes):
        v = v.decode()
    return isinstance(v, str) and v == "__none__"


def equal(a, b, path, diffs, fmt):
    """a: in-memory value, b: value read back."""
    if len(diffs) > 5:
        return
    if a is None:
        if not (b is None or _is_none_marker(b) or (isinstance(b, np.ndarray) and b.shape == () and _is_none_marker(b[()]))):
            diffs.append(f"{path}: None read back as {b!r:.60}")
        return
    if isinstance(a, dict):
        if not isinstance(b, dict):
            diffs.append(f"{path}: dict read back as {type(b).__name__}")
            return
        for k in a:
            if str(k) not in b and k not in b:
                diffs.append(f"{path}/{k}: missing in file")
                continue
            equal(a[k], b[str(k)] if str(k) in b else b[k], f"{path}/{k}", diffs, fmt)
        return
    if isinstance(a, np.ndarray) and a.dtype.names:
        # structured array <-> list of rows (json) / compound dataset (hdf5)
        if isinstance(b, np.ndarray) and b.dtype.names:
            if b.dtype.names != a.dtype.names:
                diffs.append(f"{path}: field names {b.dtype.names} vs {a.dtype.names}")
                return
            for n in a.dtype.names:
                equal(np.asarray(a[n]), np.asarray(b[n]), f"{path}.{n}", diffs, fmt)
            return
        rows = [list(r) for r in a.tolist()]
        equal(rows, b, path, diffs, fmt)
        return
    if isinstance(a, (list, tuple, np.ndarray)):
        al = a.tolist() if isinstance(a, np.ndarray) else list(a)
        if isinstance(b, np.ndarray):
            bl = b.tolist()
        elif isinstance(b, (list, tuple)):
            bl = list(b)
        else:
            if isinstance(a, np.ndarray) and a.shape == ():
                equal(a[()], b, path, diffs, fmt)
                return
            diffs.append(f"{path}: sequence read back as {type(b).__name__} {b!r:.40}")
            return
        if not isinstance(al, list):
            equal(al, bl, path, diffs, fmt)
            return
        if len(al) != len(bl):
            diffs.append(f"{path}: length {len(bl)} vs {len(al)}")
            return
        for i, (x, y) in enumerate(zip(al, bl)):
            equal(x, y, f"{path}[{i}]", diffs, fmt)
        return
    if isinstance(a, (bool, np.bool_)):
        if isinstance(b, np.ndarray) and b.shape == ():
            b = b[()]
        if not (isinstance(b, (bool, np.bool_, int, np.integer)) and bool(b) == bool(a)):
            diffs.append(f"{path}: bool {a!r} read back as {b!r}")
        return
    if isinstance(a, (int, float, np.integer, np.floating)):
        if isinstance(b, np.ndarray) and b.shape == ():
            b = b[()]
        if not isinstance(b, (int, float, np.integer, np.floating)) or isinstance(b, (bool, np.bool_)):
            diffs.append(f"{path}: number {a!r} read back as {type(b).__name__} {b!r:.40}")
            return
        if isinstance(a, (int, np.integer)):
            # integers compare exactly (python compares int with float without rounding)
            bb = int(b) if isinstance(b, (int, np.integer)) else float(b)
            if not (bb == int(a)):
                diffs.append(f"{path}: integer {a!r} read back as {b!r}")
            return
        if fmt in ("hdf5", "h5") and isinstance(a, np.longdouble):
            # HDF5 stores extended precision natively: nothing of the value may be lost
            fa, fb = a, (b if isinstance(b, np.floating) else np.longdouble(b))
        else:
            fa, fb = float(a), float(b)
        if not (fa == fb or (math.isnan(fa) and math.isnan(fb))):
            diffs.append(f"{path}: {a!r} read back as {b!r}")
        return
    if isinstance(a, (str, bytes)):
        if isinstance(b, bytes):
            b = b.decode()
        if isinstance(b, np.ndarray) and b.shape == ():
            b = b[()]
            b = b.decode() if isinstance(b, bytes) else b
        if str(a) != str(b):
            diffs.append(f"{path}: str {a!r} read back as {b!r:.40}")
        return
    # anything else (classes, functions...) only has to be readable
    return


def read_hdf5(path):
    import h5py

    def rec(g):
        out = {}
        for k, v in g.items():
            if isinstance(v, h5py.Group):
                out[k] = rec(v)
            else:
                val = v[()]
                out[k] = val
        return out

    with h5py.File(path, "r") as f:
        return rec(f)


# ---------------------------------------------------------------------------------
# real results


REAL = [
    ("std-converged", {"kind": "std", "model": "G2", "kwargs": {}, "resume": "none"}),
    ("std-prior-sampling", {"kind": "std", "model": "G2", "kwargs": {"prior_sampling": True}, "resume": "none"}),
    ("std-capped", {"kind": "std", "model": "G2", "kwargs": {"max_iteration": 30}, "resume": "none"}),
    ("std-long", {"kind": "std", "model": "G2", "kwargs": {"nlive": 10, "poolsize": 10, "stopping": 0.05}, "resume": "none"}),
    ("ins", {"kind": "ins", "model": "G2", "kwargs": {}, "resume": "none"}),
    ("ins-no-iid", {"kind": "ins", "model": "G2hole", "kwargs": {"draw_iid_live": False}, "resume": "none"}),
    ("ins-capped", {"kind": "ins", "model": "G2", "kwargs": {"max_iteration": 1}, "resume": "none"}),
]

SPELLINGS = [
    ("json", "result", "json"), ("json", "result.json", None), ("json", "result.json", "json"),
    ("hdf5", "result", "hdf5"), ("hdf5", "result.hdf5", None), ("hdf5", "result.hdf5", "hdf5"),
    ("hdf5", "result", "h5"), ("hdf5", "result.h5", None), ("hdf5", "result.h5", "h5"),
]

KEY_FIELDS = ["log_evidence", "log_evidence_error", "nested_samples", "samples", "posterior_samples", "log_posterior_weights", "insertion_indices", "history"]


def real_worker(item):
    name, cfg, seed = item
    cfg = dict(cfg, seed=seed)
    runner = runs.run_standard_case if cfg["kind"] == "std" else runs.run_ins_case
    res = runner(cfg, want=(), keep_output=True)
    errs = []
    n = 0
    cells = []
    types = set()
    out = res.get("output")
    try:
        fs = res.get("fs")
        if fs is None:
            return dict(errs=[(f"run-failed:{name}", str(res["errs"][:1]))], n=0, types=[])
        d = fs.ns.get_result_dictionary()
        d["posterior_samples"] = fs.posterior_samples
        if hasattr(fs, "initial_posterior_samples"):
            d["initial_posterior_samples"] = fs.initial_posterior_samples

        def walk(v):
            types.add(type(v).__name__)
            if isinstance(v, dict):
                for x in v.values():
                    walk(x)
            elif isinstance(v, (list, tuple)):
                for x in v[:50]:
                    walk(x)

        walk(d)
        for fmt, fname, ext in SPELLINGS:
            sub = os.path.join(out, f"save-{n}")
            os.makedirs(sub, exist_ok=True)
            path = os.path.join(sub, fname)
            n += 1
            tag = f"{name}:{fmt}:{fname},{ext}"
            cells.append(tag)
            try:
                fs.save_results(path, extension=ext)
            except Exception as e:
                errs.append((f"save-raises-{type(e).__name__}:{name}:{fmt}", f"{e} ({tag})"))
                continue
            real = path if os.path.splitext(fname)[1] else f"{path}.{ext}"
            if not os.path.exists(real):
                errs.append((f"file-not-written:{fmt}", f"{real} ({tag}); directory has {os.listdir(sub)}"))
                continue
            try:
                back = json.load(open(real)) if fmt == "json" else read_hdf5(real)
            except Exception as e:
                errs.append((f"read-back-raises-{type(e).__name__}:{name}:{fmt}", f"{e} ({tag})"))
                continue
            diffs = []
            exp = dict(d)
            if fmt == "json":
                from nessai.livepoint import live_points_to_dict

                exp["posterior_samples"] = live_points_to_dict(exp["posterior_samples"])
            equal(exp, back, "", diffs, fmt)
            for k in KEY_FIELDS:
                if k in d and k not in back:
                    diffs.append(f"/{k}: missing")
            if diffs:
                errs.append((f"read-back-differs:{name}:{fmt}:{diffs[0].split(':')[0]}", f"{diffs[:3]} ({tag})"))
    finally:
        if out:
            shutil.rmtree(out, ignore_errors=True)
    seen, viol = set(), []
    for k, dd in errs:
        if k not in seen:
            seen.add(k)
            viol.append((k, dd, {"mode": "real", "name": name}))
    return dict(errs=viol, n=n, types=sorted(types), cells=cells)


# ---------------------------------------------------------------------------------
# generated dictionaries


def value_alphabet():
    import datetime

    st = np.zeros(3, dtype=[("x", "f8"), ("logL", "f8"), ("it", "i4")])
    st["x"] = [0.5, np.nan, -np.inf]
    st["it"] = [0, 1, -1]
    st_big = np.zeros(2, dtype=[("x", "f8"), ("count", "i8"), ("ucount", "u8")])
    st_big["x"] = [0.5, -1.5]
    st_big["count"] = [2**53 + 1, -(2**62) - 3]
    st_big["ucount"] = [2**63 + 5, 7]
    return {
        "structured-array-with-large-integers": st_big,
        "float": 1.5,
        "nan": float("nan"),
        "+inf": float("inf"),
        "-inf": float("-inf"),
        "int": 7,
        "bool": True,
        "None": None,
        "str": "text",
        "np.float32": np.float32(0.25),
        "np.float64": np.float64(-2.5),
        "np.int32": np.int32(-3),
        "np.int64": np.int64(2**40),
        "np.int64-beyond-float53": np.int64(2**53 + 1),
        "np.int64-min": np.int64(-(2**63)),
        "np.uint64-large": np.uint64(2**63 + 5),
        "int-beyond-float53": 2**60 + 1,
        "list-of-large-np-ints": [np.int64(2**53 + 1), np.int64(2**62 + 3)],
        "np.longdouble": np.longdouble(0.125),
        "np.longdouble-beyond-float64": np.longdouble(1) / np.longdouble(3),
        "longdouble-array": np.array([1, 2], dtype=np.longdouble) / np.longdouble(3),
        "0d-array": np.array(3.5),
        "float-array": np.array([1.0, np.nan, np.inf]),
        "int-array": np.arange(4),
        "2d-array": np.arange(6.0).reshape(2, 3),
        "empty-array": np.array([]),
        "one-element-array": np.array([2.5]),
        "one-element-int-array": np.array([7]),
        "1x1-array": np.array([[3.0]]),
        "one-row-structured-array": st[:1].copy(),
        "list-of-one-array": [np.array([1.5])],
        "structured-array": st,
        "list-of-floats": [0.1, 0.2],
        "list-of-arrays": [np.array([1.0, 2.0]), np.array([3.0, 4.0])],
        "list-with-None": [1.0, None, 2.0],
        "list-of-np-floats": [np.float64(1.0), np.float64(np.nan)],
        "empty-list": [],
        "list-of-ints": [1, 2, 3],
        "list-int-then-float": [0, 0.5],
        "list-int-float-int": [1, 2.5, 10],
        "list-np-int-then-float": [np.int64(1), 0.5, np.float32(0.25)],
        "list-float-then-int": [0.5, 3],
        "nested-dict": {"a": 1.0, "b": {"c": None, "d": np.float64(2.0)}},
        "timedelta-seconds": datetime.timedelta(seconds=1.25).total_seconds(),
    }


def generated_worker(item):
    from nessai.utils.io import save_to_json, save_dict_to_hdf5

    names = item
    alpha = value_alphabet()
    out = runs.scratch("c19g")
    errs = []
    n = 0
    cells = []
    try:
        for nm in names:
            v = alpha[nm]
            cases = {
                "top": {"v": v},
                "in-dict": {"outer": {"v": v, "w": 1.0}},
                "in-dict-depth2": {"outer": {"inner": {"v": v}}},
            }
            if not isinstance(v, dict):
                cases["in-list"] = {"outer": [v, v]}
            for cname, d in cases.items():
                has_none_in_list = nm == "list-with-None" or (nm == "None" and cname == "in-list")
                for fmt, saver, reader in (("json", save_to_json, lambda p: json.load(open(p))), ("hdf5", save_dict_to_hdf5, read_hdf5)):
                    if fmt == "hdf5" and has_none_in_list:
                        # None appears in results only as a dictionary entry (encoded as '__none__');
                        # a None inside a list has no HDF5 representation and never occurs in results
                        continue
                    n += 1
                    path = os.path.join(out, f"g{n}.{fmt}")
                    tag = f"{nm}:{cname}:{fmt}"
                    cells.append(tag)
                    snap = copy.deepcopy(d)
                    try:
                        saver(d, path)
                    except Exception as e:
                        errs.append((f"generated:save-raises-{type(e).__name__}:{fmt}:{nm}:{cname}", f"{e} ({tag})"))
                        continue
                    changed = runs._same(snap, d, "")
                    if changed:
                        # writing must not alter what is written (the in-memory results stay in use)
                        errs.append((f"generated:saving-modifies-the-dictionary:{fmt}:{nm}", f"{changed} ({tag})"))
                        d = snap
                    try:
                        back = reader(path)
                    except Exception as e:
                        errs.append((f"generated:read-back-raises-{type(e).__name__}:{fmt}:{nm}", f"{e} ({tag})"))
                        continue
                    diffs = []
                    equal(d, back, "", diffs, fmt)
                    if diffs:
                        errs.append((f"generated:read-back-differs:{fmt}:{nm}:{cname}", f"{diffs[:2]} ({tag})"))
    finally:
        shutil.rmtree(out, ignore_errors=True)
    seen, viol = set(), []
    for k, dd in errs:
        if k not in seen:
            seen.add(k)
            viol.append((k, dd, {"mode": "generated", "names": list(names)}))
    return dict(errs=viol, n=n, cells=cells)


# ---------------------------------------------------------------------------------
# configuration file


def _callback(ns):
    return None


def _callback_tag(ns, tag=None):
    return None


class _CallableObject:
    def __call__(self, ns):
        return None

    def method(self, ns):
        return None


def config_worker(seed):
    import multiprocessing
    import torch
    from nessai.flowsampler import FlowSampler
    from nessai.proposal.flowproposal import FlowProposal
    from nessai.proposal.rejection import RejectionProposal
    from mc.tinymodels import make

    errs = []
    n = 0
    pool = multiprocessing.get_context("fork").Pool(1)
    try:
        variants = {
            "class": dict(flow_proposal_class=FlowProposal),
            "class-uninformed": dict(uninformed_proposal=RejectionProposal),
            "function": dict(checkpoint_callback=_callback),
            "lambda": dict(checkpoint_callback=lambda ns: None),
            "partial": dict(checkpoint_callback=functools.partial(_callback_tag, tag="a")),
            "callable-object": dict(checkpoint_callback=_CallableObject()),
            "bound-method": dict(checkpoint_callback=_CallableObject().method),
            "builtin": dict(checkpoint_callback=print),
            "pool": dict(pool=pool),
            "torch-dtype": dict(torch_dtype=torch.float64),
            "torch-dtype-str": dict(torch_dtype="float32"),
            "ndarray": dict(flow_config={"mask": np.array([1, 0]), "n_blocks": 2, "n_neurons": 4}),
            "np-scalars": dict(stopping=np.float64(0.5), nlive=np.int64(20), poolsize=np.int32(20)),
            "nan-inf": dict(maximum_uninformed=float("inf"), volume_fraction=0.95, max_radius=float("nan")),
            "None-values": dict(max_iteration=None, training_frequency=None, flow_config=None),
            "nested": dict(reparameterisations={"x0": {"reparameterisation": "rescaletobounds", "update_bounds": False}}, training_config={"max_epochs": 2, "noise_scale": None}),
            "ins-lists": dict(importance_nested_sampler=True, stopping_criterion=["ess", "ratio"], tolerance=[np.float64(10.0), 0.0], min_samples=10, nlive=50, threshold_kwargs={"q": np.float32(0.5)}),
        }
        for name, kw in variants.items():
            runs.reset_globals()
            out = runs.scratch("c19c")
            n += 1
            try:
                base = dict(plot=False, signal_handling=False, seed=seed)
                try:
                    FlowSampler(make("G2"), output=out, resume=False, **{**base, **kw})
                except Exception as e:
                    # rejected keyword arguments are not "accepted sets of keyword arguments";
                    # the configuration file is written before the sampler is built
                    rejected = f"{type(e).__name__}: {str(e)[:80]}"
                else:
                    rejected = None
                cf = os.path.join(out, "config.json")
                if not os.path.exists(cf):
                    if rejected is None:
                        errs.append((f"config:not-written:{name}", ""))
                    continue
                try:
                    back = json.load(open(cf))
                except Exception as e:
                    errs.append((f"config:not-readable-with-json:{name}", f"{type(e).__name__}: {e}"))
                    continue
                diffs = []
                plain = {k: v for k, v in kw.items() if isinstance(v, (int, float, str, bool, type(None), dict, list, np.generic, np.ndarray)) and k not in ("torch_dtype", "importance_nested_sampler")}
                equal(plain, back, "", diffs, "json")
                if diffs:
                    errs.append((f"config:read-back-differs:{name}", str(diffs[:2])))
                for k in kw:
                    if k == "importance_nested_sampler":
                        k = "importance_sampler"  # stored under this name by save_kwargs
                    if k not in back:
                        errs.append((f"config:keyword-missing:{name}", k))
            finally:
                shutil.rmtree(out, ignore_errors=True)
    finally:
        pool.terminate()
        pool.join()
    seen, viol = set(), []
    for k, dd in errs:
        if k not in seen:
            seen.add(k)
            viol.append((k, dd, {"mode": "config"}))
    return dict(errs=viol, n=n)


def _dispatch(x):
    kind, item = x
    if kind == "real":
        return real_worker(item)
    if kind == "gen":
        return generated_worker(item)
    return config_worker(item)


def run(ctx):
    items = [("real", (name, cfg, ctx.seed)) for name, cfg in REAL]
    names = list(value_alphabet())
    items += [("gen", names[i::8]) for i in range(8)]
    items.append(("config", ctx.seed))
    types = set()
    cells = set()
    for (kind, item), res in ctx.pmap(_dispatch, items):
        ctx.count("evaluations", res["n"])
        cells |= set(res.get("cells", []))
        for v in res["errs"]:
            ctx.violation(*v)
        types |= set(res.get("types", []))
    ctx.set("distinct_nontrivial", len(cells))
    ctx.set("value_types_seen_in_real_results", sorted(types))
    ctx.set("rule", "real: 7 finished runs (std converged / prior-only / capped / long, INS with and without the independent set / capped) x 9 spellings of (format, file name, extension argument); generated: every value type of the 25-letter alphabet at top level, inside a dict, inside a dict at depth 2 and inside a list, in JSON and HDF5; config.json for 13 keyword sets with classes, functions, lambdas, a live pool, torch dtypes, arrays, numpy scalars, non-finite floats. Distinct/non-trivial: distinct (result, spelling) and (value type, nesting, format) cells")
    ctx.set("exhaustive", True)
    ctx.sample({"real": "std-converged", "spelling": ["hdf5", "result", "h5"]})
    ctx.sample({"generated": "list-with-None", "nesting": "in-dict-depth2", "format": "hdf5"})
    ctx.assume(
        "type-aware equality: NaN == NaN, None <-> null / '__none__', structured array <-> row lists (JSON) / compound dataset (HDF5), tuples <-> lists, numpy scalars <-> python numbers",
        "non-serialisable configuration values only have to leave a file the standard JSON reader accepts",
    )


def replay(ctx, data):
    if data.get("mode") == "real":
        cfg = dict(REAL)[data["name"]]
        return [v[1] for v in real_worker((data["name"], cfg, ctx.seed))["errs"]]
    if data.get("mode") == "generated":
        return [v[1] for v in generated_worker(data["names"])["errs"]]
    return [v[1] for v in config_worker(ctx.seed)["errs"]]
