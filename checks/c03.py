"""C03 - every INS sample carries the exact meta-proposal density and weight.

Configuration lattice x every subset of resume points of a short run x every
iteration x every stored sample of both sample sets: the stored per-proposal
densities are re-evaluated from the proposals held by the sampler, the mixture
weights are recomputed from the samples' origin labels, and logQ / logW / logL
are recomputed (monitor `InsMonitor` in mc/runs.py, attached to real runs).
"""
from mc import runs

LEVEL = "exploration"


def worker(cfg):
    return runs.run_ins_case(cfg, want=("c03",))


def run(ctx):
    cfgs = runs.ins_lattice(ctx.seed, ctx.quick)
    if not ctx.quick:
        cfgs += [dict(c, seed=ctx.seed + 1) for c in runs.ins_lattice(ctx.seed + 1, True)]
    cfgs += runs.option_sweep("ins", ctx.seed)
    keys = set()
    for cfg, res in ctx.pmap(worker, cfgs):
        ctx.count("evaluations")
        ctx.count("iterations_checked", res["iterations"])
        ctx.count("samples_checked", res.get("samples_checked", 0))
        if res.get("rejected_up_front"):
            ctx.count("rejected_up_front")
        if res.get("draw_cap"):
            ctx.count("runs_cut_by_nonterminating_ins_draw")
        if res["resumes"]:
            ctx.count("runs_with_resume")
            ctx.count("resumes", res["resumes"])
        keys.add((res["key"], str(cfg.get("kill_at"))))
        if cfg.get("sweep"):
            ctx.count("runs_from_the_option_sweep")
        for clause, detail in runs.sweep_errs(cfg, res["errs"])[:2]:
            ctx.violation(f"{clause}@{res['key']}", f"{clause}: {detail} (config {cfg})", {"cfg": cfg})
    ctx.set("distinct_nontrivial", len(keys))
    ctx.set("rule", "INS configuration lattice (quick: default + every single deviation of reparameterisation, strict_threshold, replace_all, draw_constant, draw_iid_live, ftype, save_log_q, threshold_method + 4 more; thorough: full product = 384 configurations, two seeds for the quick lattice) x resume histories (every subset of the 4 checkpoints of the default run; kill-at-every-checkpoint for the deviations); plus every valid single INS option value of the C20 option alphabet. Distinct/non-trivial: distinct (configuration, resume history) pairs; every iteration and every stored sample of each is checked")
    ctx.set("exhaustive", True)
    ctx.sample({"config": cfgs[1], "checked": "every sample of training and iid sets after every iteration, after finalise, after each resume"})
    ctx.assume(
        "float32 flows: stored densities are compared with re-evaluation at 1e-4 relative + 1e-4 absolute",
        "after a resume without saved log_q the mixture is compared at float32 accuracy (the table is re-derived)",
        "tiny 2-3 parameter Gaussian models and tiny flows; max_iteration 4",
    )


def replay(ctx, data):
    res = runs.run_ins_case(data["cfg"], want=("c03",))
    return [f"{c}: {d}" for c, d in res["errs"]]
