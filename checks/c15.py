"""C15 - sampling stops exactly per the stopping rule; finished runs are idempotent.

Standard sampler: the real `nested_sampling_loop` (nlive = 10) is driven by a
scripted proposal through every trajectory word of a 4-letter alphabet; the
recorded condition sequence of each word predicts, for every tolerance placed
between consecutive recorded values and every cap, the stopping iteration,
which is compared with a real re-run.  Importance sampler: one recorded
trajectory per configuration, every criterion / alias / pair x any|all x
tolerance lattice x min/max iteration, prediction vs real re-run.
Idempotence: loop called again and resume from the final checkpoint.
"""
import itertools
import math
import os
import pickle
import shutil

import numpy as np

from mc import runs
from mc.monitors import StdMonitor

LEVEL = "model_checking"

NLIVE = 10
LETTERS = ("above+0.1", "above+2", "above+8", "just-above-min")


def traj_proposal_class():
    from mc.scripted import ScriptedProposal
    from nessai.livepoint import parameters_to_live_point

    global TrajProposal
    if "TrajProposal" in globals():
        return TrajProposal

    class TrajProposal(ScriptedProposal):
        """Scripted environment: initial live points 0..9, then one accepted answer per
        iteration chosen by the word (default letter after the word ends)."""

        word = ()
        ns = None

        def draw(self, old):
            self.draws += 1
            ns = self.ns
            if ns.live_points is None:
                v = float(self.next_id)  # initial points 0,1,2,...
            else:
                i = ns.iteration - 1  # consume_sample has already incremented
                letter = self.word[i] if i < len(self.word) else LETTERS[0]
                live = ns.live_points["logL"]
                if letter == "just-above-min":
                    rest = live[live > live[0]]
                    v = (live[0] + rest[0]) / 2.0 if len(rest) else live[0] + 0.5
                else:
                    v = live.max() + float(letter.split("+")[1])
            p = parameters_to_live_point([v, float(self.next_id)], self.model.names)
            self.next_id += 1
            p["logP"] = 0.0
            p["logL"] = v
            self.populated = True
            return p[0]

        def __getstate__(self):
            state = self.__dict__.copy()
            state.pop("model", None)
            state.pop("ns", None)
            return state

    TrajProposal.__module__ = __name__
    TrajProposal.__qualname__ = "TrajProposal"
    return TrajProposal


def make_std(word, tol, cap, out, checkpointing=False):
    from nessai.samplers.nestedsampler import NestedSampler
    from nessai.livepoint import reset_extra_live_points_parameters
    from mc.scripted import ScriptModel

    reset_extra_live_points_parameters()
    model = ScriptModel()
    ns = NestedSampler(
        model, nlive=NLIVE, output=out, uninformed_proposal=traj_proposal_class(),
        maximum_uninformed=float("inf"), uninformed_acceptance_threshold=0.0,
        checkpointing=checkpointing, plot=False, seed=0, stopping=tol, max_iteration=cap,
        flow_config=dict(runs.FLOW_TINY), training_config=dict(runs.TRAIN_TINY),
    )
    ns._uninformed_proposal.word = tuple(word)
    ns._uninformed_proposal.ns = ns
    return ns, model


def run_std(word, tol, cap, out, record=False, checkpointing=False):
    """Run the real loop; returns (ns, model, monitor, conds)."""
    ns, model = make_std(word, tol, cap, out, checkpointing)
    mon = StdMonitor()
    conds = []
    from nessai.samplers.nestedsampler import NestedSampler as NS

    with mon.installed():
        o = NS.consume_sample

        def cs(self_):
            live_before = self_.live_points["logL"].copy()
            r = o(self_)
            conds.append((float(self_.condition), float(live_before.max()), float(self_.live_points["logL"].max())))
            return r

        NS.consume_sample = cs
        try:
            ns.nested_sampling_loop()
        finally:
            # mon.installed() restores its own wrapper target; restore ours first
            NS.consume_sample = o
    return ns, model, mon, conds


def rect_logz(logls, nlive):
    import mpmath as mp

    mp.mp.dps = 40
    m = max(logls)
    Z = mp.mpf(0)
    for i, l in enumerate(logls):
        Z += mp.exp(mp.mpf(l) - m) * (mp.exp(-mp.mpf(i) / nlive) - mp.exp(-mp.mpf(i + 1) / nlive))
    return float(mp.log(Z) + m)


def std_worker(item):
    words, K = item
    errs = []
    n_runs = 0
    stops = set()
    out = runs.scratch("c15")
    try:
        for word in words:
            try:
                ns0, model0, mon0, conds = run_std(word, 0.0, K, out)
            except Exception as e:
                errs.append((f"std:base-run-raises-{type(e).__name__}", f"{e} word={word}"))
                continue
            n_runs += 1
            errs += [(f"std:{c}", f"{d} word={word}") for c, d in mon0.errs[:1]]
            if ns0.iteration != K:
                errs.append(("std:cap-not-honoured", f"iteration {ns0.iteration} for cap {K} word={word}"))
                continue
            cs = [c[0] for c in conds]
            # the recorded quantity is the estimated remaining log-evidence fraction
            dead = [float(p["logL"]) for p in ns0.nested_samples]
            hist = ns0.history["dlogZ"]
            for i in range(1, K + 1):
                logZ_i = rect_logz(dead[:i], NLIVE)
                lo = float(np.logaddexp(logZ_i, conds[i - 1][1] - i / NLIVE) - logZ_i)
                hi = float(np.logaddexp(logZ_i, conds[i - 1][2] - (i - 1) / NLIVE) - logZ_i)
                tolr = 1e-9 * (1 + abs(hi))
                if not (min(lo, hi) - tolr <= cs[i - 1] <= max(lo, hi) + tolr):
                    errs.append(("std:compared-value-is-not-the-remaining-evidence-fraction", f"iteration {i}: {cs[i-1]!r} not in [{lo!r}, {hi!r}] word={word}"))
                    break
                if i - 1 < len(hist) and hist[i - 1] != cs[i - 1]:
                    errs.append(("std:history-dlogZ-differs-from-compared-value", f"iteration {i}: {hist[i-1]!r} vs {cs[i-1]!r} word={word}"))
                    break
            # tolerance lattice: between consecutive recorded values (sorted), below all, above all
            vals = sorted(set(cs))
            tols = [vals[0] / 2.0] + [(a + b) / 2.0 for a, b in zip(vals, vals[1:])] + [vals[-1] * 2.0] + vals[:2]
            for tol in tols:
                first = next((i + 1 for i, c in enumerate(cs) if c <= tol), None)
                for cap in (None, 1, first, (first + 1) if first else None, (first - 1) if first and first > 1 else None):
                    if cap is None and first is None:
                        continue
                    pred = min(x for x in (first, cap) if x is not None)
                    try:
                        ns, model, mon, c2 = run_std(word, tol, cap, out)
                    except Exception as e:
                        errs.append((f"std:run-raises-{type(e).__name__}", f"{e} word={word} tol={tol} cap={cap}"))
                        continue
                    n_runs += 1
                    stops.add((pred, first is not None and pred == first, cap is not None and pred == cap))
                    if ns.iteration != pred:
                        errs.append(("std:stops-at-wrong-iteration", f"stopped at {ns.iteration}, rule says {pred} (first<=tol at {first}, cap {cap}) tol={tol!r} conditions={cs} word={word}"))
                        continue
                    if [c[0] for c in c2] != cs[:pred]:
                        errs.append(("std:trajectory-depends-on-stopping-settings", f"word={word}"))
                    converged = first is not None and pred == first
                    if converged:
                        if not ns.finalised or len(ns.nested_samples) != pred + NLIVE:
                            errs.append(("std:live-points-not-consumed-on-finishing", f"finalised={ns.finalised} n={len(ns.nested_samples)} word={word}"))
                        errs += [(f"std:{c}", f"{d} word={word}") for c, d in mon.errs[:1]]
                        # running again: same results, nothing evaluated, nothing drawn
                        ev0, dr0 = model.likelihood_evaluations, ns._uninformed_proposal.draws
                        z0, s0 = float(ns.state.logZ), np.array(ns.nested_samples).tobytes()
                        z1, s1 = ns.nested_sampling_loop()
                        if float(z1) != z0 or np.asarray(s1).tobytes() != s0 or model.likelihood_evaluations != ev0 or ns._uninformed_proposal.draws != dr0:
                            errs.append(("std:second-call-of-loop-not-idempotent", f"word={word} tol={tol}"))
                    elif ns.finalised:
                        errs.append(("std:capped-run-finalised", f"word={word} tol={tol} cap={cap}"))
    finally:
        shutil.rmtree(out, ignore_errors=True)
    return dedup(errs, n_runs, stops)


def dedup(errs, n_runs, outcomes):
    seen, viol = set(), []
    for k, d in errs:
        if k not in seen:
            seen.add(k)
            viol.append((k, d, {"case": d}))
    return {"counts": {"evaluations": n_runs}, "violations": viol, "outcomes": outcomes}


# ---------------------------------------------------------------------------------
# resume / rerun idempotence on real runs


def idem_worker(cfg):
    """Finish a real run, then (a) call run again on the same object, (b) resume from the
    final checkpoint with a fresh model: same results, no further likelihood evaluations."""
    import copy
    from nessai.flowsampler import FlowSampler
    from mc.tinymodels import make

    errs = []
    runner = runs.run_standard_case if cfg["kind"] == "std" else runs.run_ins_case
    res = runner(cfg, want=("c05",) if cfg["kind"] == "ins" else (), keep_output=True)
    n = 1
    out = res.get("output")
    try:
        if res["errs"] or res.get("fs") is None:
            errs += [(f"idem:{c}", d) for c, d in res["errs"][:1]]
            return dedup(errs, n, {("failed",)})
        fs, model = res["fs"], res["model"]
        capped = cfg["kind"] == "std" and not fs.ns.finalised
        tag = f"{cfg['kind']}{':capped' if capped else ''}"
        ev0 = model.likelihood_evaluations
        z0, s0 = float(fs.logZ), np.asarray(fs.nested_samples).tobytes()
        it0 = fs.ns.iteration
        try:
            fs.run(plot=False, save=False)
            n += 1
            if float(fs.logZ) != z0 or np.asarray(fs.nested_samples).tobytes() != s0 or model.likelihood_evaluations != ev0 or fs.ns.iteration != it0:
                errs.append((f"idem:{tag}:running-again-changes-results-or-evaluates", f"iteration {it0}->{fs.ns.iteration}, evaluations {ev0}->{model.likelihood_evaluations}, logZ {z0!r}->{float(fs.logZ)!r} config={cfg}"))
        except Exception as e:
            errs.append((f"idem:{tag}:running-again-raises-{type(e).__name__}", f"{e} config={cfg}"))
        # another, unrelated sampler of the same kind built and run in this process must leave the
        # finished one alone (no state shared between two sampler objects)
        try:
            read0 = (float(fs.logZ), float(fs.logZ_error) if hasattr(fs, "logZ_error") else None, np.asarray(fs.nested_samples).tobytes(), np.asarray(fs.ns.log_posterior_weights, dtype=float).tobytes() if hasattr(fs.ns, "log_posterior_weights") else None, repr(fs.ns.posterior_effective_sample_size) if hasattr(fs.ns, "posterior_effective_sample_size") else None)
            other = dict(cfg, seed=cfg.get("seed", 0) + 17, model="G3" if cfg.get("model", "G2") == "G2" else "G2", resume="none")
            other.pop("kill_at", None)
            r_other = runner(other, want=())
            n += 1
            read1 = (float(fs.logZ), float(fs.logZ_error) if hasattr(fs, "logZ_error") else None, np.asarray(fs.nested_samples).tobytes(), np.asarray(fs.ns.log_posterior_weights, dtype=float).tobytes() if hasattr(fs.ns, "log_posterior_weights") else None, repr(fs.ns.posterior_effective_sample_size) if hasattr(fs.ns, "posterior_effective_sample_size") else None)
            if read0 != read1:
                which = [nm for nm, a_, b_ in zip(("logZ", "logZ_error", "nested samples", "posterior weights", "ESS"), read0, read1) if a_ != b_]
                errs.append((f"idem:{tag}:a-finished-sampler-changes-when-another-sampler-runs-in-the-same-process", f"{which} changed (logZ {read0[0]!r} -> {read1[0]!r}) config={cfg}"))
            runs.reset_globals()
        except Exception as e:
            errs.append((f"idem:{tag}:second-sampler-in-the-same-process-raises-{type(e).__name__}", f"{e} config={cfg}"))
        # a later call asking for another posterior sampling method must honour it: multinomial
        # resampling returns int(ESS) draws (rows of the nested samples), whatever was drawn before
        if not capped:
            try:
                n_before = len(np.asarray(fs.posterior_samples))
                fs.run(plot=False, save=False, posterior_sampling_method="multinomial_resampling")
                n += 1
                lw_ = np.asarray(fs.ns.state.log_posterior_weights if cfg["kind"] == "std" else fs.ns.samples_unit["logW"] + fs.ns.samples_unit["logL"], dtype=float)
                ess_ = kish(lw_)
                n_post = len(np.asarray(fs.posterior_samples))
                if abs(n_post - ess_) >= 1.0 + 1e-6 or n_post > ess_ + 1e-6:
                    errs.append((f"idem:{tag}:a-later-run-with-another-posterior-method-is-not-honoured", f"multinomial resampling requested on the second call: {n_post} posterior samples, int(ESS) = {int(ess_)} (first call, rejection sampling: {n_before}) config={cfg}"))
                if float(fs.logZ) != z0 or np.asarray(fs.nested_samples).tobytes() != s0 or model.likelihood_evaluations != ev0:
                    errs.append((f"idem:{tag}:running-again-changes-results-or-evaluates", f"third call config={cfg}"))
            except Exception as e:
                errs.append((f"idem:{tag}:running-again-with-another-posterior-method-raises-{type(e).__name__}", f"{e} config={cfg}"))
        # resume from the final checkpoint (fresh process state: fresh model object)
        runs.reset_globals()
        kw = (runs.std_base if cfg["kind"] == "std" else runs.ins_base)(cfg.get("seed", 0), **cfg.get("kwargs", {}))
        m2 = make(cfg.get("model", "G2"))
        try:
            fs2 = FlowSampler(m2, output=out, resume=True, **copy.deepcopy(kw))
            pre = m2.likelihood_evaluations
            fs2.run(plot=False, save=False)
            n += 1
            if float(fs2.logZ) != float(fs.logZ) or np.asarray(fs2.nested_samples).tobytes() != np.asarray(fs.nested_samples).tobytes() or m2.likelihood_evaluations != pre or fs2.ns.iteration != fs.ns.iteration:
                errs.append((f"idem:{tag}:resume-after-finish-changes-results-or-evaluates", f"iteration {fs.ns.iteration}->{fs2.ns.iteration}, evaluations {pre}->{m2.likelihood_evaluations}, logZ {float(fs.logZ)!r}->{float(fs2.logZ)!r} config={cfg}"))
            if pre != model.likelihood_evaluations:
                errs.append((f"idem:{tag}:evaluation-count-not-restored", f"{pre} vs {model.likelihood_evaluations}"))
        except Exception as e:
            errs.append((f"idem:{tag}:resume-after-finish-raises-{type(e).__name__}", f"{e} config={cfg}"))
    finally:
        if out:
            shutil.rmtree(out, ignore_errors=True)
    return dedup(errs, n, {(cfg["kind"], bool(res.get("finalised", True)))})


# ---------------------------------------------------------------------------------
# importance sampler

CRITERIA = ["ratio", "ratio_ns", "Z_err", "log_dZ", "ess", "fractional_error"]
ALIASES = {"ratio_all": "ratio", "evidence_error": "Z_err", "log_evidence": "log_dZ"}


def ins_run(cfg_kwargs, seed, record=None):
    """One real INS run; record (if a list) receives per-iteration stopping data."""
    from nessai.flowsampler import FlowSampler
    from nessai.samplers.importancesampler import ImportanceNestedSampler as INS
    from mc.tinymodels import make
    import copy

    runs.reset_globals()
    out = runs.scratch("c15i")
    kw = runs.ins_base(seed, **cfg_kwargs)
    kw["checkpointing"] = False
    model = make("G2")
    o = INS.compute_stopping_criterion

    def csc(ns):
        prev = ns.history["logZ"][-1] if ns.iteration > 0 else None
        r = o(ns)
        if record is not None:
            s = ns._ordered_samples.samples
            record.append(dict(lw=(s["logL"] + s["logW"]).copy(), prev_logZ=prev, logZ=float(ns.log_evidence),
                               values={k: getattr(ns, k) for k in CRITERIA}))
        return r

    INS.compute_stopping_criterion = csc
    try:
        fs = FlowSampler(model, output=out, resume=False, **copy.deepcopy(kw))
        fs.run(plot=False, save=False)
    finally:
        INS.compute_stopping_criterion = o
        shutil.rmtree(out, ignore_errors=True)
    return fs


def kish(lw):
    import mpmath as mp

    mp.mp.dps = 40
    m = max(lw)
    w = [mp.exp(mp.mpf(float(v)) - mp.mpf(float(m))) for v in lw]
    return float(sum(w) ** 2 / sum(x * x for x in w))


def std_err_terms(lw):
    import mpmath as mp

    mp.mp.dps = 40
    n = len(lw)
    z = [mp.exp(mp.mpf(float(v))) for v in lw]
    zh = sum(z) / n
    u = mp.sqrt(sum((a - zh) ** 2 for a in z) / (n * (n - 1)))
    return float(u / zh)


def ins_base_worker(item):
    """Record the base trajectory of one configuration and check the definitions."""
    cfg_kwargs, seed, K = item
    errs = []
    rec = []
    kw = dict(cfg_kwargs, stopping_criterion=list(CRITERIA), tolerance=[-math.inf] * len(CRITERIA), check_criteria="all", max_iteration=K)
    try:
        fs = ins_run(kw, seed, record=rec)
    except Exception as e:
        return dict(errs=[(f"ins:base-run-raises-{type(e).__name__}", f"{e} {cfg_kwargs}")], rec=None)
    ns = fs.ns
    if ns.iteration != K:
        errs.append(("ins:cap-not-honoured", f"iteration {ns.iteration} cap {K} {cfg_kwargs}"))
    hist = ns.history["stopping_criteria"]
    for i, r in enumerate(rec):
        for k in CRITERIA:
            hv = hist[k][i]
            if not (hv == r["values"][k] or (math.isnan(float(hv)) and math.isnan(float(r["values"][k])))):
                errs.append(("ins:history-differs-from-compared-value", f"{k} iteration {i}: {hv!r} vs {r['values'][k]!r}"))
        ess = kish(r["lw"])
        if abs(ess - float(r["values"]["ess"])) > 1e-6 * ess:
            errs.append(("ins:ess-is-not-kish-ess", f"iteration {i}: {r['values']['ess']!r} vs {ess!r}"))
        if r["prev_logZ"] is not None:
            d = abs(r["logZ"] - float(r["prev_logZ"]))
            if abs(d - float(r["values"]["log_dZ"])) > 1e-12 * (1 + d):
                errs.append(("ins:log_dZ-is-not-the-evidence-change", f"iteration {i}: {r['values']['log_dZ']!r} vs {d!r}"))
        elif not math.isinf(float(r["values"]["log_dZ"])):
            errs.append(("ins:log_dZ-first-iteration", f"{r['values']['log_dZ']!r}"))
        fe = std_err_terms(r["lw"])
        if abs(fe - float(r["values"]["fractional_error"])) > 1e-6 * (1 + fe):
            errs.append(("ins:fractional-error-is-not-standard-error-over-Z", f"iteration {i}: {r['values']['fractional_error']!r} vs {fe!r}"))
        if abs(math.exp(fe) - float(r["values"]["Z_err"])) > 1e-6 * (1 + math.exp(fe)):
            errs.append(("ins:Z_err-is-not-exp-of-the-log-evidence-error", f"iteration {i}: {r['values']['Z_err']!r} vs {math.exp(fe)!r}"))
    return dict(errs=errs, rec=[r["values"] for r in rec], n_samples=len(fs.nested_samples))


def placements(vals):
    # tolerances are python floats (nessai converts them); the recorded values keep their own
    # precision (np.longdouble for the error criteria) and are compared with the float tolerance
    fin = sorted({float(v) for v in vals if math.isfinite(float(v))})
    if not fin:
        return [0.0]
    out = [fin[0] - 1.0] + [(a + b) / 2.0 for a, b in zip(fin, fin[1:])] + [fin[-1] + 1.0] + [fin[0]]
    return out


def ins_pred_worker(item):
    cfg_kwargs, seed, K, rec, combos = item
    errs = []
    n = 0
    stops = set()
    for names, tols, mode, min_it, cap in combos:
        canon = [ALIASES.get(x, x) for x in names]
        met = []
        for i in range(len(rec)):
            flags = [rec[i][c] <= t for c, t in zip(canon, tols)]
            met.append(any(flags) if mode == "any" else all(flags))
        lo = max(1, min_it if min_it is not None else -1)
        pred = next((i for i in range(1, len(rec) + 1) if i >= lo and met[i - 1]), None)
        # if the criteria are met before min_iteration the loop stops at the first iteration >= min
        capv = cap if cap is not None else K
        pred = min(pred, capv) if pred is not None else capv
        kw = dict(cfg_kwargs, stopping_criterion=list(names), tolerance=list(tols), check_criteria=mode, max_iteration=capv)
        if min_it is not None:
            kw["min_iteration"] = min_it
        try:
            fs = ins_run(kw, seed)
        except Exception as e:
            errs.append((f"ins:run-raises-{type(e).__name__}", f"{e} criteria={names} tol={tols} {mode}"))
            continue
        n += 1
        stops.add((tuple(canon), mode, pred))
        if fs.ns.iteration != pred:
            errs.append(("ins:stops-at-wrong-iteration", f"stopped at {fs.ns.iteration}, rule says {pred}: criteria={names} tolerances={tols} {mode} min_iteration={min_it} cap={capv} recorded={[[r[c] for c in canon] for r in rec]}"))
            continue
        h = fs.ns.history["stopping_criteria"]
        for c in set(canon):
            got = list(h[c])
            want = [rec[i][c] for i in range(pred)]
            if any(not (a == b or (math.isnan(float(a)) and math.isnan(float(b)))) for a, b in zip(got, want)) or len(got) != pred:
                errs.append(("ins:trajectory-depends-on-stopping-settings", f"{c}: {got} vs {want} criteria={names}"))
        if not fs.ns.finalised:
            errs.append(("ins:not-finalised-on-finishing", f"criteria={names}"))
    return dedup(errs, n, stops)


def run(ctx):
    outcomes = set()
    # --- standard sampler, scripted trajectories
    wl = 3 if ctx.quick else 5
    K = 8 if ctx.quick else 10
    words = list(itertools.product(LETTERS, repeat=wl))
    step = max(1, len(words) // 64)
    items = [(words[i : i + step], K) for i in range(0, len(words), step)]
    n_states = 0
    for it, res in ctx.pmap(std_worker, items):
        ctx.merge(res)
        outcomes |= {("std",) + tuple(o) for o in res["outcomes"]}
    ctx.set("std_trajectory_words", len(words))
    # --- idempotence on real runs
    idem = [
        {"kind": "std", "model": "G2", "seed": ctx.seed, "kwargs": {}, "resume": "none"},
        {"kind": "std", "model": "G2", "seed": ctx.seed, "kwargs": {"max_iteration": 30}, "resume": "none"},
        {"kind": "std", "model": "G2", "seed": ctx.seed + 1, "kwargs": {"nlive": 10, "poolsize": 10}, "resume": "every"},
        {"kind": "ins", "model": "G2", "seed": ctx.seed, "kwargs": {}, "resume": "none"},
        {"kind": "ins", "model": "G2", "seed": ctx.seed, "kwargs": {"draw_iid_live": False}, "resume": "none"},
        {"kind": "ins", "model": "G2", "seed": ctx.seed + 1, "kwargs": {"save_log_q": True, "max_iteration": 2}, "resume": "every"},
        {"kind": "ins", "model": "G2", "seed": ctx.seed, "kwargs": {"stopping_criterion": "ess", "tolerance": 1e9}, "resume": "none"},
        # interrupted at every checkpoint, including the one written at the stopping iteration: the
        # resumed run must still stop at the first iteration whose recorded criteria meet the tolerances
        {"kind": "ins", "model": "G2", "seed": ctx.seed, "kwargs": {}, "resume": "every"},
        {"kind": "ins", "model": "G2", "seed": ctx.seed, "kwargs": {"stopping_criterion": "log_dZ", "tolerance": 5.0, "max_iteration": 8}, "resume": "every"},
        {"kind": "ins", "model": "G2", "seed": ctx.seed + 1, "kwargs": {"stopping_criterion": ["ratio", "ess"], "tolerance": [0.5, 1000.0], "check_criteria": "any", "max_iteration": 8, "draw_constant": False}, "resume": "every"},
    ]
    for it, res in ctx.pmap(idem_worker, idem):
        ctx.merge(res)
        outcomes |= {("idem",) + tuple(o) for o in res["outcomes"]}
    # --- importance sampler
    Ki = 4
    ins_cfgs = [{}] if ctx.quick else [{}, {"draw_constant": False}, {"strict_threshold": True}, {"threshold_method": "quantile"}]
    bases = {}
    for it, res in ctx.pmap(ins_base_worker, [(c, ctx.seed, Ki) for c in ins_cfgs]):
        ctx.count("evaluations")
        seen = set()
        for k, d in res["errs"]:
            if k not in seen:
                seen.add(k)
                ctx.violation(k, d, {"case": d})
        if res["rec"]:
            bases[repr(it[0])] = (it[0], res["rec"])
    pred_items = []
    for key, (cfgk, rec) in bases.items():
        combos = []
        singles = CRITERIA + list(ALIASES)
        for c in singles:
            cc = ALIASES.get(c, c)
            for t in placements([r[cc] for r in rec]):
                for min_it in (None, 2):
                    combos.append(((c,), (t,), "any", min_it, None))
            combos.append(((c,), (1e300,), "all", 3, None))
            combos.append(((c,), (1e300,), "any", None, 2))
        # both orders of every pair: tolerances are matched to criteria by position
        pairs = list(itertools.permutations(CRITERIA, 2))
        if ctx.quick:
            pairs = pairs[::3]
        pairs += [("log_evidence", "ratio_all"), ("evidence_error", "ess")]
        # one quantity configured twice (its name and its alias, or the same name) with two tolerances:
        # still two criteria, each with its own tolerance
        pairs += [("log_dZ", "log_evidence"), ("evidence_error", "Z_err"), ("ratio", "ratio_all"), ("ess", "ess")]
        for a, b in pairs:
            pa, pb = placements([r[ALIASES.get(a, a)] for r in rec]), placements([r[ALIASES.get(b, b)] for r in rec])
            if ctx.quick:
                pa, pb = pa[::2], pb[::2]
            for ta in pa:
                for tb in pb:
                    for mode in ("any", "all"):
                        combos.append(((a, b), (ta, tb), mode, None, None))
        step = max(1, len(combos) // 48)
        for i in range(0, len(combos), step):
            pred_items.append((cfgk, ctx.seed, Ki, rec, combos[i : i + step]))
    for it, res in ctx.pmap(ins_pred_worker, pred_items):
        ctx.merge(res)
        outcomes |= {("ins",) + tuple(o) for o in res["outcomes"]}
    # invalid settings are rejected up front
    for bad in (dict(check_criteria="sometimes"), dict(stopping_criterion="nope"), dict(stopping_criterion=["ess", "ratio"], tolerance=[1.0])):
        try:
            ins_run(bad, ctx.seed)
            ctx.violation(f"ins:invalid-stopping-settings-accepted:{sorted(bad)}", f"{bad} did not raise", {"case": str(bad)})
        except ValueError:
            ctx.count("invalid_settings_rejected")
        except Exception as e:
            ctx.violation(f"ins:invalid-stopping-settings-{type(e).__name__}", f"{bad}: {e}", {"case": str(bad)})
    ev = ctx.cov.get("evaluations", 0)
    ctx.set("states", len(outcomes))
    ctx.set("transitions", ev)
    ctx.set("traces_validated_against_impl", ev)
    ctx.set("distinct_outcomes", len(outcomes))
    ctx.set("bounds", dict(std_word_length=wl, std_recorded_iterations=K, letters=LETTERS, ins_iterations=Ki, ins_configurations=len(ins_cfgs)))
    ctx.set("exhaustive", True)
    ctx.sample({"std_word": list(words[5]), "tolerances": "placed between consecutive recorded conditions", "caps": "None, 1, first, first+1, first-1"})
    ctx.sample({"ins_criteria": ["ess", "log_dZ"], "mode": "all", "tolerances": "lattice around the recorded values"})
    ctx.assume(
        "states = distinct (sampler, criteria, mode, predicted stopping iteration, stopped-by) outcomes forced; transitions = real runs executed, each one compared with the prediction from the recorded trajectory",
        "'meets its tolerance' is value <= tolerance for every criterion, as documented by reached_tolerance",
        "the trajectory of a seeded run does not depend on the stopping settings (asserted on every re-run)",
    )


def replay(ctx, data):
    return [f"stored case: {data.get('case')}"]
