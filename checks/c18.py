"""C18 - live-point conversions preserve names, order, values and defaults.

BFS over add/reset histories of the real extra-field registry
(`nessai.config.livepoints` driven through `nessai.livepoint`), in lock step
with a list-based registry model; in every reached registry state the complete
conversion lattice (names x shapes x value shifts x with/without non-sampling
fields x every conversion function) is evaluated bit for bit.
"""
import copy
import itertools

import numpy as np

from mc import explore

LEVEL = "model_checking"

EVENTS = [
    ("add", ("a",), None),
    ("add", ("a", "b"), None),
    ("add", ("a",), (1.5,)),
    ("add", ("b",), (-2.0,)),
    ("add", ("logW", "logQ", "logU"), None),
    ("add", ("qn",), (0.0,)),
    ("add", ("a", "b"), (1.5, -2.0)),
    ("add", ("b", "a", "c"), (3.0, 4.0, 5.0)),
    ("reset",),
]

VALUES = [0.0, -0.0, 1.5, float("nan"), float("inf"), float("-inf"), 1e308, 5e-324, -1.5]

NAME_LISTS = {
    1: ["x"],
    2: ["_y", "x"],
    3: ["a1", "_b", "ñu"],
    5: ["x_0", "x_1", "m", "_", "Z9"],
    20: [f"p{i}" for i in range(20)],
}


class RegistryModel:
    def __init__(self):
        self.names = []
        self.defaults = []

    def apply(self, ev):
        if ev[0] == "reset":
            self.names, self.defaults = [], []
        else:
            params, dvs = ev[1], ev[2]
            if dvs is None:
                dvs = (float("nan"),) * len(params)
            for p, dv in zip(params, dvs):
                if p not in self.names:
                    self.names.append(p)
                    self.defaults.append(dv)

    def key(self):
        return (tuple(self.names), tuple(repr(d) for d in self.defaults))


def apply_real(ev):
    from nessai import livepoint as lp

    if ev[0] == "reset":
        lp.reset_extra_live_points_parameters()
    else:
        lp.add_extra_parameters_to_live_points(list(ev[1]), None if ev[2] is None else list(ev[2]))


def bits(a):
    """Bit pattern of a float array (so NaN and -0.0 compare exactly)."""
    return np.ascontiguousarray(np.asarray(a, dtype="f8")).view("i8").tolist()


def other_config_snapshot():
    from nessai import config

    lpc = config.livepoints
    return repr(
        (
            lpc.logl_dtype,
            lpc.it_dtype,
            lpc.it_default,
            lpc.default_float_dtype,
            lpc.default_float_value,
            list(lpc.core_parameters),
            config.plotting.asdict(),
            config.general.asdict(),
        )
    )


def matrix(n, d, shift):
    m = np.empty((n, d))
    k = shift
    for i in range(n):
        for j in range(d):
            m[i, j] = VALUES[k % len(VALUES)]
            k += 1
    return m


def check_lp(arr, names, mat, model, nsp, what, errs):
    """arr must be the live-point array for matrix mat under registry `model`."""
    exp_names = list(names) + ((["logP", "logL", "it"] + model.names) if nsp else [])
    if list(arr.dtype.names) != exp_names:
        errs.append((f"{what}:field-order", f"{arr.dtype.names} != {exp_names}"))
        return
    if arr.shape != (mat.shape[0],):
        errs.append((f"{what}:shape", f"{arr.shape} for {mat.shape}"))
        return
    for j, nm in enumerate(names):
        if arr.dtype[nm] != np.dtype("f8"):
            errs.append((f"{what}:dtype", nm))
        if bits(arr[nm]) != bits(mat[:, j]):
            errs.append((f"{what}:values", f"{nm}: {arr[nm]!r} vs {mat[:, j]!r}"))
            return
    if nsp and len(arr):
        if not np.all(np.isnan(arr["logP"])) or not np.all(np.isnan(arr["logL"])):
            errs.append((f"{what}:default-logP-logL", ""))
        if not np.all(arr["it"] == 0) or arr.dtype["it"] != np.dtype("i4"):
            errs.append((f"{what}:default-it", ""))
        for nm, dv in zip(model.names, model.defaults):
            if bits(arr[nm]) != bits(np.full(len(arr), dv)):
                errs.append((f"{what}:default-extra", f"{nm}: {arr[nm]!r} vs {dv}"))


def selections(names):
    import itertools

    names = list(names)
    d = len(names)
    if d <= 3:
        out = [p for k in range(1, d + 1) for p in itertools.permutations(names, k)]
    else:
        out = [tuple(names), tuple(reversed(names)), tuple(names[1:] + names[:1]), (names[-1],), (names[-1], names[0]), tuple(names[::-2]), tuple(names[1::2])]
    return out


def lattice(model, quick):
    """Evaluate every conversion in the current registry state.  Returns (n_cases, errs)."""
    import pandas as pd
    from nessai import livepoint as lp

    errs = []
    ncases = 0

    def guard(what, fn):
        try:
            return fn()
        except Exception as e:
            errs.append((f"{what}:raises-{type(e).__name__}", str(e)[:200]))
            return None

    for d, names in NAME_LISTS.items():
        for n in (0, 1, 3):
            shifts = range(len(VALUES)) if (d <= 3 or not quick) else (0, 4)
            for shift in shifts:
                mat = matrix(n, d, shift)
                for nsp in (True, False):
                    ncases += 1
                    tag = f"n={n}"
                    # dtype
                    dt = guard("get_dtype", lambda: lp.get_dtype(names, non_sampling_parameters=nsp))
                    exp_names = list(names) + ((["logP", "logL", "it"] + model.names) if nsp else [])
                    if dt is not None and list(dt.names) != exp_names:
                        errs.append(("get_dtype:field-order", f"{dt.names}"))
                    # array -> live points -> array
                    mat_in = mat.copy()
                    a = guard(f"numpy_array_to_live_points[{tag}]", lambda: lp.numpy_array_to_live_points(mat_in, names, non_sampling_parameters=nsp))
                    if bits(mat_in) != bits(mat):
                        errs.append((f"numpy_array_to_live_points[{tag}]:modifies-its-input", ""))
                    if a is not None:
                        check_lp(a, names, mat, model, nsp, f"numpy_array_to_live_points[{tag}]", errs)
                        back = guard("live_points_to_array", lambda: lp.live_points_to_array(a, names))
                        if back is not None and n > 0 and bits(back) != bits(mat):
                            errs.append((f"live_points_to_array[{tag}]:values", ""))
                        if back is not None and back.shape != (n, d):
                            errs.append((f"live_points_to_array[{tag}]:shape", f"{back.shape}"))
                    if a is not None and (shift == 0 or d <= 3):
                        # every selection of names: all ordered subsets for d <= 3, a structured
                        # family (reversed, rotated, last only, last+first, every other) above
                        a_bytes = a.tobytes()
                        for sel in selections(names):
                            cols = [names.index(s_) for s_ in sel]
                            for cp in (False, True):
                                ncases += 1
                                w = f"live_points_to_array[names={'perm' if len(sel) == d else 'subset'},copy={cp},{tag}]"
                                back = guard(w, lambda: lp.live_points_to_array(a, list(sel), copy=cp))
                                if back is None:
                                    continue
                                if back.shape != (n, len(sel)):
                                    errs.append((f"{w}:shape", f"{back.shape} vs {(n, len(sel))} for names {sel} of {names}"))
                                elif n > 0 and bits(back) != bits(mat[:, cols]):
                                    errs.append((f"{w}:values-not-in-the-requested-order", f"names {sel} of {names}"))
                            sub = guard("live_points_to_dict[selection]", lambda: lp.live_points_to_dict(a, list(sel)))
                            if sub is not None:
                                if list(sub.keys()) != list(sel):
                                    errs.append(("live_points_to_dict[selection]:key-order", f"{list(sub.keys())} vs {sel}"))
                                elif any(bits(sub[s_]) != bits(mat[:, c]) for s_, c in zip(sel, cols)):
                                    errs.append(("live_points_to_dict[selection]:values", f"{sel}"))
                        if a.tobytes() != a_bytes:
                            errs.append(("live_points_to_array/dict:modifies-the-live-points", tag))
                        try:
                            r_ = lp.live_points_to_array(a, list(names) + ["not_a_field_"])
                            if r_.shape[-1] != d + 1:
                                errs.append(("live_points_to_array[unknown-name]:silently-dropped", f"{r_.shape}"))
                        except Exception:
                            pass
                    if n == 1:
                        a1 = guard("numpy_array_to_live_points[1d]", lambda: lp.numpy_array_to_live_points(mat[0].copy(), names, non_sampling_parameters=nsp))
                        if a1 is not None:
                            check_lp(a1, names, mat, model, nsp, "numpy_array_to_live_points[1d]", errs)
                        for conv, cn in ((tuple, "tuple"), (list, "list"), (np.asarray, "array")):
                            p1 = guard(f"parameters_to_live_point[{cn}]", lambda: lp.parameters_to_live_point(conv(mat[0].tolist()), names, non_sampling_parameters=nsp))
                            if p1 is not None:
                                check_lp(p1, names, mat, model, nsp, f"parameters_to_live_point[{cn}]", errs)
                    if n == 0:
                        p0 = guard("parameters_to_live_point[empty]", lambda: lp.parameters_to_live_point((), names, non_sampling_parameters=nsp))
                        if p0 is not None:
                            check_lp(p0, names, mat, model, nsp, "parameters_to_live_point[empty]", errs)
                    # dict <-> live points
                    forms = {
                        "arrays": {nm: mat[:, j].copy() for j, nm in enumerate(names)},
                        "lists": {nm: mat[:, j].tolist() for j, nm in enumerate(names)},
                    }
                    if n == 1:
                        forms["scalars"] = {nm: float(mat[0, j]) for j, nm in enumerate(names)}
                        forms["npscalars"] = {nm: mat[0, j] for j, nm in enumerate(names)}
                    for fname, dd in forms.items():
                        w = f"dict_to_live_points[{fname},{tag}]"
                        snap_ = {k_: (v_.copy() if isinstance(v_, np.ndarray) else (list(v_) if isinstance(v_, list) else v_)) for k_, v_ in dd.items()}
                        o = guard(w, lambda: lp.dict_to_live_points(dd, non_sampling_parameters=nsp))
                        if list(dd.keys()) != list(snap_.keys()) or any(bits(np.asarray(dd[k_], dtype=float)) != bits(np.asarray(snap_[k_], dtype=float)) for k_ in snap_):
                            errs.append((f"{w}:modifies-its-input", ""))
                        if o is not None:
                            check_lp(o, names, mat, model, nsp, w, errs)
                    if a is not None:
                        dct = guard("live_points_to_dict", lambda: lp.live_points_to_dict(a))
                        if dct is not None:
                            if list(dct.keys()) != list(a.dtype.names):
                                errs.append(("live_points_to_dict:key-order", ""))
                            for j, nm in enumerate(names):
                                if bits(dct[nm]) != bits(mat[:, j]):
                                    errs.append(("live_points_to_dict:values", nm))
                            sub = guard("live_points_to_dict[names]", lambda: lp.live_points_to_dict(a, names))
                            if sub is not None:
                                if list(sub.keys()) != list(names):
                                    errs.append(("live_points_to_dict[names]:key-order", ""))
                                w = f"dict_roundtrip[{tag}]"
                                rt = guard(w, lambda: lp.dict_to_live_points(sub, non_sampling_parameters=nsp))
                                if rt is not None:
                                    check_lp(rt, names, mat, model, nsp, w, errs)
                    # data frame -> live points
                    df = pd.DataFrame({nm: mat[:, j] for j, nm in enumerate(names)})
                    w = f"dataframe_to_live_points[{tag}]"
                    o = guard(w, lambda: lp.dataframe_to_live_points(df, non_sampling_parameters=nsp))
                    if list(df.columns) != list(names) or any(bits(df[nm].to_numpy()) != bits(mat[:, j]) for j, nm in enumerate(names)):
                        errs.append((f"{w}:modifies-its-input", ""))
                    if o is not None:
                        check_lp(o, names, mat, model, nsp, w, errs)
                    # empty structured array
                    if shift == 0:
                        nanmat = np.full((n, d), np.nan)
                        e = guard("empty_structured_array", lambda: lp.empty_structured_array(n, names, non_sampling_parameters=nsp))
                        if e is not None:
                            check_lp(e, names, nanmat, model, nsp, f"empty_structured_array[{tag}]", errs)
                        if dt is not None:
                            e2 = guard("empty_structured_array[dtype]", lambda: lp.empty_structured_array(n, dtype=dt, non_sampling_parameters=nsp))
                            if e2 is not None:
                                check_lp(e2, names, nanmat, model, nsp, f"empty_structured_array[dtype,{tag}]", errs)
                            # the same fields in another order (a dtype built by the user or taken while the
                            # registry held its extra fields in another order): defaults go by NAME
                            if nsp and n > 0:
                                allf = list(dt.names)
                                nons = allf[len(names):]
                                for pname, order in (("non-sampling-reversed", list(names) + nons[::-1]), ("all-reversed", allf[::-1]), ("non-sampling-first", nons + list(names))):
                                    if order == allf:
                                        continue
                                    pdt = np.dtype([(f, dt.fields[f][0]) for f in order])
                                    w_ = f"empty_structured_array[dtype:{pname},{tag}]"
                                    e3 = guard(w_, lambda: lp.empty_structured_array(n, dtype=pdt, non_sampling_parameters=nsp))
                                    if e3 is None:
                                        continue
                                    if list(e3.dtype.names) != order:
                                        errs.append((f"{w_}:field-order", f"{e3.dtype.names}"))
                                        continue
                                    want = {"logP": np.nan, "logL": np.nan, "it": 0.0}
                                    want.update({nm_: dv_ for nm_, dv_ in zip(model.names, model.defaults)})
                                    want.update({nm_: np.nan for nm_ in names})
                                    for f in order:
                                        if bits(np.asarray(e3[f], dtype=float)) != bits(np.full(n, want[f], dtype=float)):
                                            errs.append((f"{w_}:defaults-not-assigned-by-name", f"{f}: {e3[f]!r} expected {want[f]!r}"))
                                            break
                    # zero-copy views
                    if a is not None and n > 0:
                        for k in sorted({1, d}):
                            sub_names = names[:k]
                            v = guard("unstructured_view", lambda: lp.unstructured_view(a, sub_names))
                            if v is None:
                                continue
                            if v.shape != (n, k):
                                errs.append(("unstructured_view:shape", f"{v.shape} vs {(n, k)}"))
                                continue
                            if not np.shares_memory(v, a):
                                errs.append(("unstructured_view:copy", ""))
                            if bits(v) != bits(mat[:, :k]):
                                errs.append(("unstructured_view:values", ""))
                            before = a.copy()
                            v[0, k - 1] = 42.0
                            if a[sub_names[k - 1]][0] != 42.0:
                                errs.append(("unstructured_view:write-through", ""))
                            chk = a.copy()
                            chk[sub_names[k - 1]][0] = before[sub_names[k - 1]][0]
                            if chk.tobytes() != before.tobytes():
                                errs.append(("unstructured_view:writes-elsewhere", ""))
                            a[sub_names[k - 1]][0] = before[sub_names[k - 1]][0]
                        # slices of a larger array (offset start, steps, reversed): either refused or a
                        # window onto exactly the rows that were passed in
                        if n == 3:
                            big = lp.numpy_array_to_live_points(np.arange(24.0).reshape(12, 2)[:, :1].repeat(d, axis=1) + np.arange(d) * 100.0, names, non_sampling_parameters=nsp)
                            for sname, sl in (("[2:7]", slice(2, 7)), ("[::2]", slice(None, None, 2)), ("[1::2]", slice(1, None, 2)), ("[2:11:3]", slice(2, 11, 3)), ("[5::4]", slice(5, None, 4)), ("[::-1]", slice(None, None, -1)), ("[3:][::2]", None)):
                                part = big[3:][::2] if sl is None else big[sl]
                                try:
                                    v = lp.unstructured_view(part, names)
                                except Exception:
                                    continue  # refusing a non-contiguous input is fine
                                want = np.stack([part[nm_] for nm_ in names], axis=1)
                                if v.shape != want.shape or bits(v) != bits(want):
                                    errs.append(("unstructured_view:slice-shows-other-rows", f"slice {sname}: {v[:3].tolist()} vs {want[:3].tolist()}"))
                                elif not np.shares_memory(v, big):
                                    errs.append(("unstructured_view:slice-copy", sname))
    return ncases, errs


class _M:
    pass


def model_view_checks(model_obj, names, reg, errs, when):
    """Model.unstructured_view on arrays built in the current registry state."""
    from nessai import livepoint as lp

    mat = matrix(3, len(names), 2)
    for nsp in (True, False):
        a = lp.numpy_array_to_live_points(mat.copy(), names, non_sampling_parameters=nsp)
        try:
            v = model_obj.unstructured_view(a)
        except Exception as e:
            errs.append((f"Model.unstructured_view[{when}]:raises-{type(e).__name__}", str(e)[:200]))
            continue
        if v.shape != (3, len(names)) or bits(v) != bits(mat):
            errs.append((f"Model.unstructured_view[{when}]:values", ""))
        if not np.shares_memory(v, a):
            errs.append((f"Model.unstructured_view[{when}]:copy", ""))
        v[1, 0] = 7.0
        if a[names[0]][1] != 7.0:
            errs.append((f"Model.unstructured_view[{when}]:write-through", ""))


def make_model(names):
    from nessai.model import Model

    class M(Model):
        def __init__(self):
            self.names = list(names)
            self.bounds = {n: [-1.0, 1.0] for n in names}

        def log_prior(self, x):
            return np.zeros(x.size)

        def log_likelihood(self, x):
            return np.zeros(x.size)

    return M()


def run_history(hist, quick, full_lattice=True):
    """Replay a registry history on the real registry; check everything in the final state.

    Returns (canon_key, n_cases, errs)."""
    from nessai import config
    from nessai import livepoint as lp

    lp.reset_extra_live_points_parameters()
    model = RegistryModel()
    errs = []
    other0 = other_config_snapshot()
    names3 = NAME_LISTS[3]
    m_early = make_model(names3)
    m_early.unstructured_view(lp.empty_structured_array(1, names3))  # caches the view dtype
    kept = []
    for i, ev in enumerate(hist):
        # arrays built before the event must not change
        pre = lp.numpy_array_to_live_points(matrix(2, 3, i), names3)
        kept.append((pre, pre.tobytes(), pre.dtype))
        try:
            apply_real(ev)
        except Exception as e:
            errs.append((f"registry-{ev[0]}:raises-{type(e).__name__}", str(e)[:200]))
            return None, 0, errs
        model.apply(ev)
    lpc = config.livepoints
    if list(lpc.extra_parameters) != model.names:
        errs.append(("registry:names", f"{lpc.extra_parameters} vs {model.names}"))
    if bits(list(lpc.extra_parameters_defaults)) != bits(model.defaults):
        errs.append(("registry:defaults", f"{lpc.extra_parameters_defaults} vs {model.defaults}"))
    if list(lpc.non_sampling_parameters) != ["logP", "logL", "it"] + model.names:
        errs.append(("registry:non_sampling_parameters", f"{lpc.non_sampling_parameters}"))
    if len(lpc.non_sampling_defaults) != 3 + len(model.names) or bits(list(lpc.non_sampling_defaults[3:])) != bits(model.defaults):
        errs.append(("registry:non_sampling_defaults", f"{lpc.non_sampling_defaults}"))
    if len(lpc.non_sampling_dtype) != 3 + len(model.names):
        errs.append(("registry:non_sampling_dtype", f"{lpc.non_sampling_dtype}"))
    if other_config_snapshot() != other0:
        errs.append(("registry:changes-something-else", other_config_snapshot()))
    for pre, b, dt in kept:
        if pre.tobytes() != b or pre.dtype != dt:
            errs.append(("registry:existing-array-changed", ""))
    n = 0
    if full_lattice:
        n, e2 = lattice(model, quick)
        errs.extend(e2)
        model_view_checks(m_early, names3, model, errs, "model-built-before-events")
        model_view_checks(make_model(names3), names3, model, errs, "fresh-model")
    lp.reset_extra_live_points_parameters()
    return model.key(), n, errs


def config_scenario():
    """A user who changed other livepoint settings (dtypes, iteration default, placeholder value) and
    then registers / resets extra fields: the other settings must be left alone, and arrays built
    afterwards follow them."""
    from nessai import config
    from nessai import livepoint as lp

    errs = []
    lpc = config.livepoints
    saved = (lpc.logl_dtype, lpc.it_dtype, lpc.it_default, lpc.default_float_dtype, lpc.default_float_value)
    try:
        for setting in (dict(it_default=5), dict(it_dtype="i8"), dict(logl_dtype="f16"), dict(default_float_value=-1.0), dict(default_float_dtype="f4"), dict(it_default=3, it_dtype="i8", logl_dtype="f4")):
            lp.reset_extra_live_points_parameters()
            for k_, v_ in zip(("logl_dtype", "it_dtype", "it_default", "default_float_dtype", "default_float_value"), saved):
                setattr(lpc, k_, v_)
            for k_, v_ in setting.items():
                setattr(lpc, k_, v_)
            lpc.reset_properties()
            before = other_config_snapshot()
            ref = lp.empty_structured_array(2, ["a", "b"])
            for events in ([("add", ["u"], [0.25])], [("add", ["u"], [0.25]), ("reset",)], [("add", ["u", "v"], None), ("reset",), ("add", ["v"], [1.5])], [("reset",)]):
                for ev in events:
                    if ev[0] == "add":
                        lp.add_extra_parameters_to_live_points(ev[1], ev[2])
                    else:
                        lp.reset_extra_live_points_parameters()
                if other_config_snapshot() != before:
                    errs.append(("config:registering-or-resetting-extra-fields-changes-other-settings", f"user settings {setting}, events {events}: {before} -> {other_config_snapshot()}"))
                    break
                lp.reset_extra_live_points_parameters()
                now = lp.empty_structured_array(2, ["a", "b"])
                if now.dtype != ref.dtype or now.tobytes() != ref.tobytes():
                    errs.append(("config:arrays-built-after-add-and-reset-differ", f"user settings {setting}: {ref.dtype} -> {now.dtype}"))
                    break
    except Exception as e:
        errs.append((f"config:raises-{type(e).__name__}", str(e)[:200]))
    finally:
        lp.reset_extra_live_points_parameters()
        for k_, v_ in zip(("logl_dtype", "it_dtype", "it_default", "default_float_dtype", "default_float_value"), saved):
            setattr(lpc, k_, v_)
        lpc.reset_properties()
    return errs


def expand(item):
    bi, quick, hists = item
    out = []
    for hist in hists:
        succs = []
        for ev in EVENTS:
            h2 = list(hist) + [ev]
            key, n, errs = run_history(h2, quick)
            viol = None
            if errs:
                name, detail = errs[0]
                viol = (name, f"{name} {detail} after registry history {h2} ({len(errs)} failing clauses)", {"hist": h2})
            succs.append((ev, None if errs else key, viol, (key, n)))
        out.append(succs)
    return out


def run(ctx):
    depth = 3 if ctx.quick else 5
    key, n, errs = run_history([], ctx.quick)
    for name, detail in config_scenario()[:2]:
        ctx.violation(name, f"{name} {detail}", {"hist": [], "config": True})
    firsts = {}
    for name, detail in errs:
        firsts.setdefault(name, detail)
    for name, detail in list(firsts.items())[:4]:
        ctx.violation(name, f"{name} {detail} in the initial registry state", {"hist": []})
    r = explore.bfs(ctx, [(key, [])], expand, depth, chunk=1, extra=ctx.quick)
    ncases = n + sum(t[1] for t in r["outcomes"])
    ctx.set("states", r["states"])
    ctx.set("transitions", r["transitions"])
    ctx.set("traces_validated_against_impl", r["transitions"])
    ctx.set("max_depth", r["max_depth"])
    ctx.set("conversion_cases_per_state", n)
    ctx.set("distinct_registry_states", len({t[0] for t in r["outcomes"]}))
    ctx.set("exhaustive", True)
    ctx.set("fixpoint_reached", bool(r["exhausted"]))
    ctx.set("bounds", dict(depth=depth, events=[str(e) for e in EVENTS], name_lists=list(NAME_LISTS), shapes=[0, 1, 3], values=[repr(v) for v in VALUES]))
    ctx.sample({"shortest": [], "longest": r["longest"]})
    ctx.assume(
        "reserved field names (logP, logL, it and registered extras) are not used as parameter names",
        "values are compared by bit pattern (NaN payloads and signed zeros included)",
    )


def replay(ctx, data):
    hist = [tuple(tuple(x) if isinstance(x, list) else x for x in ev) for ev in data["hist"]]
    key, n, errs = run_history(hist, False)
    return [f"{a} {b}" for a, b in errs]
