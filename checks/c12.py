"""C12 - resuming restores the checkpointed state and yields a valid, accounted run.

(a) At EVERY checkpoint of real runs over a configuration lattice the live
sampler is digested, the file just written is resumed into a second object
(fresh model) and the two digests are compared field by field.
(b) A short run of each sampler is killed at EVERY likelihood call (and at kill
pairs), resumed with a fresh model and run to completion; results must satisfy
the C01/C03 monitors and the C05 oracle, and the evaluation counter must equal
the checkpointed count plus the evaluations made after the resume.
"""
import copy
import datetime
import os
import shutil

import numpy as np

from mc import runs, vclock
from mc.monitors import StdMonitor
from mc.tinymodels import Guarded, KillSignal, make

LEVEL = "fault_enumeration"


def _arr(v):
    if isinstance(v, np.ndarray):
        return ("nd", v.dtype.str, v.shape, v.tobytes())
    if isinstance(v, (list, tuple)):
        return tuple(_arr(x) for x in v)
    if isinstance(v, dict):
        return tuple(sorted((str(k), _arr(x)) for k, x in v.items()))
    if isinstance(v, (int, float, str, bool, type(None), np.generic)):
        return repr(v)
    return f"<{type(v).__name__}>"


def reparam_state(prop):
    out = {}
    rp = getattr(prop, "_reparameterisation", None)
    if rp is None:
        return out
    try:
        items = list(rp.items())
    except Exception:
        return out
    for name, r in items:
        d = {}
        for k, v in vars(r).items():
            if isinstance(v, (np.ndarray, dict, list, tuple, int, float, bool, str, type(None), np.generic)):
                d[k] = _arr(v)
        out[str(name)] = d
    return out


# derived quantities whose value legitimately depends on the moment they are read
# (log_q is compared separately at float32 accuracy: it is re-derived on resume)
_VOLATILE_PROPERTIES = {"current_sampling_time", "last_updated", "log_q"}


def property_digest(obj, prefix):
    """Every public property of the sampler (and of its proposals) that returns a plain value: a
    restored sampler must report the same derived quantities, not only hold the same fields."""
    import datetime as _dt

    out = {}
    for name in sorted(dir(type(obj))):
        if name.startswith("_") or name in _VOLATILE_PROPERTIES or not isinstance(getattr(type(obj), name, None), property):
            continue
        try:
            v = getattr(obj, name)
        except Exception as e:
            out[f"{prefix}.{name}"] = f"raises {type(e).__name__}"
            continue
        if isinstance(v, (int, float, bool, str, type(None), np.generic, _dt.timedelta)):
            out[f"{prefix}.{name}"] = repr(v)
        elif isinstance(v, np.ndarray) and v.size <= 4096 and v.dtype.kind in "fiub":
            out[f"{prefix}.{name}"] = _arr(v)
    return out


def std_full_digest(ns):
    d = dict(runs.std_digest(ns))
    d.update(property_digest(ns, "property"))
    d.update(property_digest(ns._flow_proposal, "flow.property"))
    d.update(property_digest(ns._uninformed_proposal, "uninformed.property"))
    fp, up = ns._flow_proposal, ns._uninformed_proposal
    d["flow.samples"] = _arr(getattr(fp, "samples", None))
    d["flow.indices"] = _arr(list(getattr(fp, "indices", []) or []))
    d["flow.populated"] = bool(fp.populated)
    d["flow.training_count"] = fp.training_count
    d["flow.populated_count"] = getattr(fp, "populated_count", None)
    d["flow.r"] = repr(getattr(fp, "r", None))
    d["flow.poolsize_scale"] = repr(getattr(fp, "_poolsize_scale", None))
    d["flow.acceptance"] = _arr(list(getattr(fp, "acceptance", []) or []))
    d["flow.ns_acceptance"] = repr(getattr(fp, "ns_acceptance", None))
    d["flow.fuzz"] = repr(getattr(fp, "fuzz", None))
    d["flow.fixed_radius"] = repr(getattr(fp, "fixed_radius", None))
    d["flow.parameters"] = repr(getattr(fp, "parameters", None))
    d["flow.prime_parameters"] = repr(getattr(fp, "prime_parameters", None))
    d["flow.training_data"] = _arr(getattr(fp, "training_data", None))
    d["flow.reparameterisations"] = _arr(reparam_state(fp))
    d["uninformed.samples"] = _arr(getattr(up, "samples", None))
    d["uninformed.indices"] = _arr(list(getattr(up, "indices", []) or []))
    d["uninformed.populated"] = bool(up.populated)
    d["training_time"] = repr(ns.training_time)
    d["flow.population_time"] = repr(getattr(fp, "population_time", None))
    d["uninformed.population_time"] = repr(getattr(up, "population_time", None))
    d["likelihood_evaluation_time"] = repr(ns.model.likelihood_evaluation_time)
    d["final_p_value"] = repr(ns.final_p_value)
    d["tolerance"] = repr(ns.tolerance)
    d["max_iteration"] = repr(ns.max_iteration)
    d["completed_training"] = ns.completed_training
    d["training_iterations"] = _arr(list(ns.history["training_iterations"])) if ns.history else None
    flow = getattr(fp, "flow", None)
    if flow is not None and getattr(flow, "model", None) is not None and getattr(flow, "weights_file", None):
        d["flow.weights"] = _arr({k: v.cpu().numpy() for k, v in flow.model.state_dict().items()})
    else:
        d["flow.weights"] = None
    d["evaluations"] = ns.model.likelihood_evaluations
    return d


def ins_full_digest(ns):
    d = dict(runs.ins_digest(ns))
    d.update(property_digest(ns, "property"))
    d.update(property_digest(ns.proposal, "proposal.property"))
    for name, o in (("training", ns.training_samples), ("iid", ns.iid_samples)):
        if o is None:
            continue
        d[f"{name}.state.logZ"] = repr(float(o.state.logZ)) if o.state._weights is not None else None
    d["training_time"] = repr(ns.training_time)
    d["draw_samples_time"] = repr(ns.draw_samples_time)
    d["add_and_update_samples_time"] = repr(ns.add_and_update_samples_time)
    d["likelihood_evaluation_time"] = repr(ns.model.likelihood_evaluation_time)
    d["min_samples"] = repr((ns.min_samples, ns.min_remove, ns.max_samples, ns.nlive, ns.n_initial))
    d["tolerance"] = repr((ns.tolerance, ns.stopping_criterion, ns._stop_any, ns.min_iteration, ns.max_iteration))
    d["n_models"] = ns.proposal.flow.n_models
    d["flow.weights"] = _arr([{k: v.cpu().numpy() for k, v in m.state_dict().items()} for m in ns.proposal.flow.models])
    d["evaluations"] = ns.model.likelihood_evaluations
    d["criterion"] = repr(ns.criterion)
    return d


def compare_log_q(ns, ns2, errs, tag):
    for name in ("training_samples", "iid_samples"):
        a, b = getattr(ns, name), getattr(ns2, name)
        if a is None:
            continue
        if b is None or b.log_q is None:
            errs.append((f"resume:{name}.log_q-missing", tag))
            continue
        if a.log_q.shape != b.log_q.shape:
            errs.append((f"resume:{name}.log_q-shape", f"{a.log_q.shape} vs {b.log_q.shape} {tag}"))
            continue
        if ns.save_log_q:
            if a.log_q.tobytes() != b.log_q.tobytes():
                errs.append((f"resume:{name}.log_q-not-bitwise-with-save_log_q", tag))
        else:
            both_inf = np.isinf(a.log_q) & (a.log_q == b.log_q)
            bad = ~both_inf & ~(np.abs(a.log_q - b.log_q) <= 1e-4 + 1e-4 * np.abs(a.log_q))
            if np.any(bad):
                i = np.argwhere(bad)[0]
                errs.append((f"resume:{name}.log_q-re-derived-beyond-float32", f"{a.log_q[tuple(i)]!r} vs {b.log_q[tuple(i)]!r} at {tuple(i)} {tag}"))


def compare_with_resume(ns, filename, kind, kw, model_name, errs, tag):
    """Digest of the live sampler that has just been written to `filename` vs the digest of that
    file resumed into a fresh object.  RNG and global state are left as found."""
    import torch
    from nessai.samplers.nestedsampler import NestedSampler
    from nessai.samplers.importancesampler import ImportanceNestedSampler

    rng = (np.random.get_state(), torch.get_rng_state())
    try:
        d1 = std_full_digest(ns) if kind == "std" else ins_full_digest(ns)
        m2 = make(model_name)
        cls = NestedSampler if kind == "std" else ImportanceNestedSampler
        try:
            ns2 = cls.resume(filename, m2, flow_config=copy.deepcopy(kw.get("flow_config")), weights_path=None)
            if kind == "std":
                ns2.initialise()
                ns2.check_resume()
            d2 = std_full_digest(ns2) if kind == "std" else ins_full_digest(ns2)
        except Exception as e:
            errs.append((f"resume-raises-{type(e).__name__}", f"{e} at {tag}"))
            return
        for k_ in d1:
            if d1[k_] != d2.get(k_):
                errs.append((f"resume:{k_}-not-restored", f"{tag}: {str(d1[k_])[:80]} vs {str(d2.get(k_))[:80]}"))
        if kind == "ins":
            compare_log_q(ns, ns2, errs, tag)
    finally:
        np.random.set_state(rng[0])
        torch.set_rng_state(rng[1])
        runs.reset_globals_keep_fields(kind)


def checkpoint_worker(cfg):
    """Run one configuration; at every checkpoint compare live object vs resumed object."""
    import torch
    import nessai.samplers.base as sbase
    from nessai.flowsampler import FlowSampler
    from nessai.samplers.nestedsampler import NestedSampler
    from nessai.samplers.importancesampler import ImportanceNestedSampler

    runs.reset_globals()
    kind = cfg["kind"]
    out = runs.scratch("c12a")
    kw = (runs.std_base if kind == "std" else runs.ins_base)(cfg.get("seed", 0), **cfg.get("kwargs", {}))
    errs = []
    stats = dict(checkpoints=0, phases=set())
    o_dump = sbase.safe_file_dump
    key = runs.cfg_key(cfg)

    def dump(data, filename, *a, **k):
        r = o_dump(data, filename, *a, **k)
        ns = data
        stats["checkpoints"] += 1
        rng = (np.random.get_state(), torch.get_rng_state())
        try:
            d1 = std_full_digest(ns) if kind == "std" else ins_full_digest(ns)
            m2 = make(cfg.get("model", "G2"))
            cls = NestedSampler if kind == "std" else ImportanceNestedSampler
            try:
                ns2 = cls.resume(filename, m2, flow_config=copy.deepcopy(kw.get("flow_config")), weights_path=None)
                if kind == "std":
                    ns2.initialise()
                    ns2.check_resume()
                    # the live object reports `populated` straight away; the resumed one after check_resume
                d2 = std_full_digest(ns2) if kind == "std" else ins_full_digest(ns2)
            except Exception as e:
                import traceback

                errs.append((f"resume-raises-{type(e).__name__}", f"{e} at checkpoint {stats['checkpoints']} (iteration {ns.iteration}) | {traceback.format_exc()[-300:]}"))
                return r
            tag = f"checkpoint {stats['checkpoints']} iteration {ns.iteration}"
            if kind == "std":
                stats["phases"].add(("flow" if ns.proposal is ns._flow_proposal else "uninformed", bool(ns.proposal.populated), ns._flow_proposal.training_count > 0))
            else:
                stats["phases"].add(("ins", ns.iteration, ns.finalised))
            for k_ in d1:
                if d1[k_] != d2.get(k_):
                    errs.append((f"resume:{k_}-not-restored", f"{tag}: {str(d1[k_])[:80]} vs {str(d2.get(k_))[:80]}"))
            if kind == "ins":
                compare_log_q(ns, ns2, errs, tag)
            if ns2.sampling_time < ns.sampling_time:
                errs.append(("resume:sampling-time-decreased", tag))
        finally:
            np.random.set_state(rng[0])
            torch.set_rng_state(rng[1])
            runs.reset_globals_keep_fields(kind)
        return r

    sbase.safe_file_dump = dump
    try:
        model = make(cfg.get("model", "G2"))
        try:
            fs = FlowSampler(model, output=out, resume=False, **copy.deepcopy(kw))
            fs.run(plot=False, save=False)
        except Exception as e:
            if stats["checkpoints"] == 0 and not getattr(model, "likelihood_evaluations", 0):
                stats["rejected_up_front"] = True
            else:
                errs.append((f"run-raises-{type(e).__name__}", str(e)[:300]))
    finally:
        sbase.safe_file_dump = o_dump
        shutil.rmtree(out, ignore_errors=True)
    seen, viol = set(), []
    for k_, d in errs:
        if k_ not in seen:
            seen.add(k_)
            viol.append((f"{k_}@{key}", f"{k_}: {d} (config {cfg})", {"mode": "checkpoint", "cfg": cfg}))
    return dict(viol=viol, checkpoints=stats["checkpoints"], phases=sorted(map(str, stats["phases"])), key=key)


# ---------------------------------------------------------------------------------
# (b) kill at every likelihood call


def kill_run(cfg, kills):
    """Run with kills at the given likelihood-call indices (counted per leg). Returns dict."""
    import nessai.samplers.base as sbase
    from nessai.flowsampler import FlowSampler

    runs.reset_globals()
    kind = cfg["kind"]
    out = runs.scratch("c12b")
    kw = (runs.std_base if kind == "std" else runs.ins_base)(cfg.get("seed", 0), **cfg.get("kwargs", {}))
    errs = []
    mon = StdMonitor() if kind == "std" else runs.InsMonitor()
    kills = list(kills)
    legs = 0
    total_calls = 0
    fs = None
    o_dump = sbase.safe_file_dump
    leg = {}

    last = {"counter": None, "time": None, "stime": None}
    clk = vclock.VClock()
    leg["clock"] = clk

    def dump(data, filename, *a, **k):
        # evaluation accounting at every checkpoint of every leg
        g = leg["guard"]
        expected = leg["c0"] + (g.rows - leg["rows_setup"])
        if data.model.likelihood_evaluations != expected:
            errs.append(("evaluation-count-at-checkpoint", f"counter {data.model.likelihood_evaluations} vs {leg['c0']} restored + {g.rows - leg['rows_setup']} evaluated in this leg (leg {legs}, iteration {data.iteration})"))
        # timers under the virtual clock (one second per evaluated point, DOWNTIME between legs)
        lt = vclock.seconds(data.model.likelihood_evaluation_time)
        lt_want = leg["lt0"] + (clk.t - leg["t_start"])
        if lt != lt_want:
            errs.append(("likelihood-time-at-checkpoint", f"{lt} s vs {leg['lt0']} s restored + {clk.t - leg['t_start']} s of evaluations in this leg (leg {legs}, iteration {data.iteration})"))
        st = vclock.seconds(data.sampling_time)
        if leg.get("ck_prev") is None:
            # first checkpoint of the leg: the time carried over plus the time since the loop was
            # entered (a fresh run may or may not count its initialisation)
            lo = leg["s0"] + (clk.t - leg.get("t_loop", leg["t_start"]))
            hi = leg["s0"] + (clk.t - leg["t_start"])
        else:
            lo = hi = leg["ck_prev"][0] + (clk.t - leg["ck_prev"][1])
        if not (lo <= st <= hi):
            errs.append(("sampling-time-at-checkpoint", f"{st} s vs {lo}..{hi} s expected (carried {leg['s0']} s, leg {legs}, iteration {data.iteration}, previous checkpoint of this leg {leg.get('ck_prev')}; the down time between legs is {vclock.DOWNTIME} s)"))
        leg["ck_prev"] = (st, clk.t)
        r = o_dump(data, filename, *a, **k)
        last["counter"] = data.model.likelihood_evaluations
        last["time"] = data.model.likelihood_evaluation_time
        last["stime"] = data.sampling_time
        # was this checkpoint written from inside the replace step (checkpoint_on_training after an
        # empty pool)?  Such a file holds a half-updated sampler (known finding F29).
        import sys as _sys

        f_, inside = _sys._getframe(1), False
        while f_ is not None:
            if f_.f_code.co_name == "consume_sample":
                inside = True
                break
            f_ = f_.f_back
        last["mid_iteration"] = inside
        # a sampler that was itself restored from a checkpoint must again write checkpoints that
        # restore to what it is (second and later generations; the first few checkpoints of the leg)
        if legs > 1 and leg.get("gen_checks", 0) < 12:
            leg["gen_checks"] = leg.get("gen_checks", 0) + 1
            n0 = len(errs)
            clk_t, clk_r = clk.t, clk.reads
            compare_with_resume(data, filename, kind, kw, cfg.get("model", "G2"), errs, f"leg {legs} (resumed sampler), checkpoint at iteration {data.iteration}")
            clk.t, clk.reads = clk_t, clk_r
            for i_ in range(n0, len(errs)):
                errs[i_] = ("generation-2:" + errs[i_][0], errs[i_][1])
        leg["n_ckpt"] = leg.get("n_ckpt", 0) + 1
        if leg.get("ckpt_kill") is not None and leg["n_ckpt"] == leg["ckpt_kill"] and not getattr(data, "finalised", False):
            raise KillSignal(f"after checkpoint {leg['n_ckpt']}")
        return r

    sbase.safe_file_dump = dump
    from nessai.samplers.importancesampler import ImportanceNestedSampler as _INS
    from nessai.samplers.nestedsampler import NestedSampler as _NS

    loops = {c: c.nested_sampling_loop for c in (_NS, _INS)}

    def _wrap(c):
        o = loops[c]

        def loop(self_, *a, **k):
            leg.setdefault("t_loop", clk.t)
            return o(self_, *a, **k)

        c.nested_sampling_loop = loop

    for c in loops:
        _wrap(c)
    try:
        with mon.installed(), clk.installed(), (runs.std_draw_cap() if kind == "std" else runs.ins_draw_cap()):
            for attempt in range(len(kills) + 2):
                model = make(cfg.get("model", "G2"))
                g = Guarded(model)
                legs += 1
                try:
                    fs = FlowSampler(model, output=out, resume=True, **copy.deepcopy(kw))
                    if kind == "ins" and (fs.ns.iteration > 0):
                        mon.rederived = not kw.get("save_log_q", False)
                    c0 = model.likelihood_evaluations
                    prev = getattr(fs.ns, "_previous_likelihood_evaluations", 0) if legs > 1 and (fs.ns.iteration > 0 or getattr(fs.ns, "resumed", False)) else 0
                    if legs > 1 and c0 != prev:
                        errs.append(("evaluation-count-not-restored-from-checkpoint", f"{c0} vs checkpointed {prev}"))
                    if legs > 1 and last["counter"] is not None and c0 != last["counter"]:
                        errs.append(("evaluation-count-after-resume-differs-from-the-count-at-the-last-checkpoint", f"leg {legs} starts from {c0}; the last completed checkpoint was written when the counter was {last['counter']}"))
                    if legs > 1 and last["time"] is not None and model.likelihood_evaluation_time < last["time"] - datetime.timedelta(milliseconds=1):
                        errs.append(("likelihood-time-after-resume-below-the-time-at-the-last-checkpoint", f"{model.likelihood_evaluation_time} < {last['time']}"))
                    if legs > 1 and last.get("mid_iteration"):
                        leg["from_mid_iteration"] = True
                    if legs > 1 and last["time"] is not None and model.likelihood_evaluation_time != last["time"]:
                        errs.append(("likelihood-time-after-resume-differs-from-the-time-at-the-last-checkpoint", f"{model.likelihood_evaluation_time} vs {last['time']}"))
                    st0 = fs.ns.sampling_time
                    if legs > 1 and last["stime"] is not None and st0 != last["stime"]:
                        errs.append(("sampling-time-after-resume-differs-from-the-time-at-the-last-checkpoint", f"{st0} vs {last['stime']}"))
                    model.vectorised_likelihood  # force the lazy vectorisation probe now
                    leg.pop("t_loop", None)
                    leg.update(gen_checks=0, ck_prev=None, guard=g, c0=c0, rows_setup=g.rows, lt0=vclock.seconds(model.likelihood_evaluation_time), s0=vclock.seconds(st0), t_start=clk.t)
                    g.kcalls = 0
                    leg["n_ckpt"], leg["ckpt_kill"] = 0, None
                    if kills:
                        kc = kills.pop(0)
                        # ("ckpt", j): the process dies right after the j-th checkpoint of this leg is complete
                        if isinstance(kc, (tuple, list)) and kc[0] == "ckpt":
                            g.kill_call, leg["ckpt_kill"] = None, int(kc[1])
                        else:
                            g.kill_call = kc
                    else:
                        g.kill_call = None
                    g.clock = clk
                    _arm(g)
                    fs.run(plot=False, save=False)
                    total_calls += g.kcalls
                    expected = c0 + (g.rows - leg["rows_setup"])
                    if model.likelihood_evaluations != expected:
                        errs.append(("evaluation-count-at-end", f"counter {model.likelihood_evaluations} vs {c0} restored + {g.rows - leg['rows_setup']} evaluated after the resume"))
                    if fs.ns.sampling_time < st0:
                        errs.append(("sampling-time-decreased", f"{fs.ns.sampling_time} < {st0}"))
                    lt, lt_want = vclock.seconds(model.likelihood_evaluation_time), leg["lt0"] + (clk.t - leg["t_start"])
                    if lt != lt_want:
                        errs.append(("likelihood-time-at-end", f"{lt} s vs {leg['lt0']} s restored + {clk.t - leg['t_start']} s of evaluations after the resume"))
                    st = vclock.seconds(fs.ns.sampling_time)
                    if leg.get("ck_prev") is None:
                        lo, hi = leg["s0"] + (clk.t - leg.get("t_loop", leg["t_start"])), leg["s0"] + (clk.t - leg["t_start"])
                    else:
                        lo = hi = leg["ck_prev"][0] + (clk.t - leg["ck_prev"][1])
                    hist_t = list((fs.ns.history or {}).get("sampling_time", []))
                    if hist_t:
                        if any(b < a for a, b in zip(hist_t, hist_t[1:])):
                            errs.append(("history-sampling-time-not-monotone", f"{hist_t[:40]}"))
                        if max(hist_t) > st or max(hist_t) >= vclock.DOWNTIME:
                            errs.append(("history-sampling-time-exceeds-the-total-or-includes-down-time", f"max {max(hist_t)} s vs total {st} s ({legs} legs)"))
                    if not (lo <= st <= hi):
                        errs.append(("sampling-time-at-end", f"{st} s vs {lo}..{hi} s expected (carried {leg['s0']} s, {legs} legs; down time between legs {vclock.DOWNTIME} s)"))
                    break
                except KillSignal:
                    total_calls += getattr(g, 'kcalls', 0)
                    clk.tick(vclock.DOWNTIME)
                    continue
            else:
                errs.append(("run-did-not-finish", ""))
    except runs.DrawCap as e:
        errs.append(("resumed-run-does-not-terminate", str(e)[:300]))
        fs = None
    except Exception as e:
        import traceback

        errs.append((f"resumed-run-raises-{type(e).__name__}", f"{e} | {traceback.format_exc()[-400:]}"))
        fs = None
    finally:
        sbase.safe_file_dump = o_dump
        for c, o in loops.items():
            c.nested_sampling_loop = o
    errs += mon.errs[:2]
    if fs is not None and not errs:
        (runs.check_std_results if kind == "std" else runs.check_ins_results)(fs, model, errs)
    shutil.rmtree(out, ignore_errors=True)
    return dict(errs=errs, legs=legs, calls=total_calls, finished=fs is not None, logZ=None if fs is None else float(fs.logZ), from_mid_iteration=bool(leg.get("from_mid_iteration")))


def _arm(g):
    """Make the guard raise KillSignal at likelihood call number g.kill_call of this leg."""
    model = g.model
    inner = model.log_likelihood

    def ll(x, _inner=inner):
        g.kcalls += 1
        if getattr(g, "clock", None) is not None:
            g.clock.tick(np.atleast_1d(x).size)
        if g.kill_call is not None and g.kcalls == g.kill_call:
            raise KillSignal(g.kcalls)
        return _inner(x)

    model.log_likelihood = ll


def kill_worker(item):
    cfg, kills = item
    r = kill_run(cfg, kills)
    seen, viol = set(), []
    key = runs.cfg_key(cfg)
    for k_, d in r["errs"]:
        if r.get("from_mid_iteration") and k_ == "len(insertion_indices)!=iteration":
            # one underlying history: a leg resumed from a checkpoint that checkpoint_on_training wrote
            # from inside consume_sample (worst point recorded, not yet replaced); its one symptom on the
            # pinned tree is the missing insertion index - any other inconsistency of such a history is
            # reported under its own name
            k_ = "resumed-from-a-checkpoint-written-inside-the-replace-step"
        elif r.get("from_mid_iteration"):
            k_ = f"{k_}[after-resuming-from-a-checkpoint-written-inside-the-replace-step]"
        if k_ not in seen:
            seen.add(k_)
            viol.append((f"kill:{k_}@{key}", f"{k_}: {d} (kills at likelihood calls {kills}, config {cfg})", {"mode": "kill", "cfg": cfg, "kills": list(kills)}))
    return dict(viol=viol, legs=r["legs"], calls=r["calls"], kills=kills)


def real_kill_worker(item):
    """Thorough: a real process is killed with os._exit at its k-th likelihood call; a second
    real process resumes and completes; the parent then resumes the finished run in-process and
    applies the result oracle."""
    import json as _json
    import subprocess
    import sys as _sys
    from nessai.flowsampler import FlowSampler
    from mc import core

    cfg, k = item
    kind = cfg["kind"]
    out = runs.scratch("c12real")
    env = dict(os.environ)
    env["PYTHONPATH"] = core.REPO + os.pathsep + env.get("PYTHONPATH", "")
    env["NESSAI_REPO"] = core.REPO
    script = os.path.join(core.VERIF, "mc", "c12_child.py")
    errs = []
    try:
        args = [_sys.executable, script, kind, out, str(cfg.get("seed", 0)), str(k), _json.dumps(cfg.get("kwargs", {}))]
        # the two processes get different hash seeds (CPython's default behaviour, made reproducible)
        env["PYTHONHASHSEED"] = "0"
        p1 = subprocess.run(args, env=env, capture_output=True, text=True, timeout=900)
        if p1.returncode == 0:
            return dict(viol=[], legs=1, finished_early=True)
        if p1.returncode != 137:
            return dict(viol=[], legs=0, harness=f"first leg exited {p1.returncode}: {p1.stderr[-300:]}")
        args[5] = "0"
        env["PYTHONHASHSEED"] = "1"
        p2 = subprocess.run(args, env=env, capture_output=True, text=True, timeout=900)
        for line in (p2.stdout or "").splitlines():
            if line.startswith("MONITOR "):
                for c_, d_ in _json.loads(line[8:]):
                    errs.append((f"resumed-process:{c_}", d_))
        if p2.returncode != 0:
            errs.append(("resumed-process-failed", f"exit {p2.returncode}: {p2.stderr[-400:]}"))
        else:
            runs.reset_globals()
            kw = (runs.std_base if kind == "std" else runs.ins_base)(cfg.get("seed", 0), **cfg.get("kwargs", {}))
            model = make(cfg.get("model", "G2"))
            fs = FlowSampler(model, output=out, resume=True, **copy.deepcopy(kw))
            before = model.likelihood_evaluations
            fs.run(plot=False, save=False)
            if model.likelihood_evaluations != before:
                errs.append(("finished-run-evaluates-again-on-resume", f"{before} -> {model.likelihood_evaluations}"))
            (runs.check_std_results if kind == "std" else runs.check_ins_results)(fs, model, errs)
    finally:
        shutil.rmtree(out, ignore_errors=True)
    key = runs.cfg_key(cfg)
    seen, viol = set(), []
    for k_, d in errs:
        if k_ not in seen:
            seen.add(k_)
            viol.append((f"real-kill:{k_}@{key}", f"{k_}: {d} (os._exit at likelihood call {k}, config {cfg})", {"mode": "real-kill", "cfg": cfg, "k": k}))
    return dict(viol=viol, legs=2)


KILL_CFGS = [
    {"kind": "std", "model": "G2", "seed": 0, "kwargs": {"nlive": 10, "poolsize": 10, "checkpoint_interval": 5, "maximum_uninformed": 10}},
    {"kind": "ins", "model": "G2", "seed": 0, "kwargs": {"max_iteration": 3}},
    {"kind": "ins", "model": "G2hole", "seed": 0, "kwargs": {"max_iteration": 2, "save_log_q": True, "draw_iid_live": False}},
    # time-triggered checkpoints: deterministic under the virtual clock (1 s per evaluated point),
    # and the first checkpoint opportunity after a resume sees the whole down time
    {"kind": "std", "model": "G2", "seed": 0, "kwargs": {"nlive": 10, "poolsize": 10, "checkpoint_on_iteration": False, "checkpoint_interval": 15, "maximum_uninformed": 10}},
    {"kind": "ins", "model": "G2", "seed": 0, "kwargs": {"max_iteration": 3, "checkpoint_on_iteration": False, "checkpoint_interval": 120}},
    # checkpoint_on_training with every periodic check writing a file (known finding F29)
    {"kind": "std", "model": "G2", "seed": 0, "kwargs": {"nlive": 10, "poolsize": 10, "maximum_uninformed": 10, "training_frequency": 3, "checkpoint_on_training": True, "checkpoint_on_iteration": False, "checkpoint_interval": 0}},
    # trainings while the pool is still populated, each followed by a checkpoint
    {"kind": "std", "model": "G2", "seed": 0, "kwargs": {"nlive": 10, "poolsize": 10, "maximum_uninformed": 10, "training_frequency": 3, "cooldown": 2, "checkpoint_on_training": True, "checkpoint_on_iteration": False, "checkpoint_interval": 0}},
]


def checkpoint_lattice(seed, quick):
    fast = {"checkpoint_interval": 5}
    cfgs = [
        {"kind": "std", "model": "G2", "seed": seed, "kwargs": dict(fast)},
        {"kind": "std", "model": "G2", "seed": seed, "kwargs": {"checkpoint_on_iteration": False, "checkpoint_interval": 0}},
        {"kind": "std", "model": "G2", "seed": seed, "kwargs": dict(fast, checkpoint_on_training=True)},
        {"kind": "std", "model": "G2", "seed": seed, "kwargs": dict(fast, flow_config={"mask": [1, 0]})},
        {"kind": "std", "model": "G2", "seed": seed, "kwargs": dict(fast, flow_config={"mask": np.array([1, 0])})},
        {"kind": "std", "model": "G2", "seed": seed, "kwargs": dict(fast, flow_proposal_class="clusteringflowproposal")},
        {"kind": "std", "model": "G2", "seed": seed, "kwargs": dict(fast, latent_prior="uniform_nball")},
        {"kind": "std", "model": "G2", "seed": seed, "kwargs": dict(fast, reparameterisations={"x0": "inversion", "x1": "rescaletobounds"})},
        {"kind": "std", "model": "G2ramp", "seed": seed, "kwargs": dict(fast, analytic_priors=True)},
        {"kind": "std", "model": "G3", "seed": seed, "kwargs": dict(fast, maximum_uninformed=False, reparameterisations="logit")},
        {"kind": "std", "model": "G2", "seed": seed, "kwargs": dict(fast, poolsize=7, drawsize=3, accumulate_weights=True)},
        {"kind": "std", "model": "G2", "seed": seed, "kwargs": dict(fast, flow_config={"ftype": "nsf"}, update_poolsize=False)},
        {"kind": "ins", "model": "G2", "seed": seed, "kwargs": {}},
        {"kind": "ins", "model": "G2", "seed": seed, "kwargs": {"save_log_q": True}},
        {"kind": "ins", "model": "G2", "seed": seed, "kwargs": {"draw_iid_live": False, "strict_threshold": True}},
        {"kind": "ins", "model": "G2hole", "seed": seed, "kwargs": {"draw_constant": False, "min_remove": 3}},
        {"kind": "ins", "model": "G3", "seed": seed, "kwargs": {"flow_config": {"ftype": "maf"}, "replace_all": True}},
        # flows with state beyond their trained weights (buffers estimated after training)
        {"kind": "ins", "model": "G2", "seed": seed, "kwargs": {"flow_config": {"distribution": "lars"}}},
        {"kind": "std", "model": "G2", "seed": seed, "kwargs": dict(fast, flow_config={"distribution": "lars"})},
        {"kind": "ins", "model": "G2", "seed": seed, "kwargs": {"flow_config": {"batch_norm_between_layers": True}}},
        # more than ten levels (level_10 sorts before level_2 as a string)
        {"kind": "ins", "model": "G2", "seed": seed, "kwargs": {"max_iteration": 13, "min_iteration": 13, "nlive": 30, "min_samples": 5}},
    ]
    if not quick:
        cfgs += [dict(c, seed=seed + 1) for c in cfgs]
    return cfgs


def count_calls(cfg):
    r = kill_run(cfg, [])
    return r["calls"]


def run(ctx):
    cfgs = checkpoint_lattice(ctx.seed, ctx.quick)
    classes = set()
    for cfg, res in ctx.pmap(checkpoint_worker, cfgs):
        ctx.count("evaluations", res["checkpoints"])
        ctx.count("checkpoints_compared", res["checkpoints"])
        for p in res["phases"]:
            classes.add((cfg["kind"], p))
        for v in res["viol"]:
            ctx.violation(*v)
    # kill enumeration
    kcfgs = [dict(c, seed=ctx.seed) for c in KILL_CFGS]
    ncalls = {}
    for cfg, n in ctx.pmap(count_calls, kcfgs):
        ncalls[runs.cfg_key(cfg)] = n
    items = []
    for cfg in kcfgs:
        n = ncalls[runs.cfg_key(cfg)]
        for k in range(1, n + 1):
            items.append((cfg, (k,)))
        pairs = [(a, b) for a in range(1, n + 1, max(1, n // (4 if ctx.quick else 12))) for b in (1, 2, max(1, n // 3))]
        for a, b in pairs:
            items.append((cfg, (a, b)))
        # the process dies right after its j-th checkpoint is complete (pool populated or not, trained
        # or not): the resumed sampler's own checkpoints are compared with their restored copies
        for j in (range(1, 41, 3) if ctx.quick else range(1, 61)):
            items.append((cfg, (("ckpt", j),)))
    for it, res in ctx.pmap(kill_worker, items):
        ctx.count("evaluations")
        ctx.count("kill_histories")
        classes.add(("kill", it[0]["kind"], res["legs"]))
        for v in res["viol"]:
            ctx.violation(*v)
    if True:
        # real processes: killed with os._exit at the k-th likelihood call, resumed by a second
        # interpreter with another hash seed (quick: a few kill points; thorough: a lattice of 40)
        real_items = []
        for cfg in kcfgs[:2] + ([] if ctx.quick else kcfgs[2:3]):
            n = ncalls[runs.cfg_key(cfg)]
            for k in (sorted({max(1, n // 2), max(1, (3 * n) // 4), n}) if ctx.quick else range(1, n + 1, max(1, n // 40))):
                real_items.append((cfg, k))
        for it, res in ctx.pmap(real_kill_worker, real_items, nproc=12):
            if res.get("harness"):
                raise RuntimeError(f"real-kill child failed: {res['harness']}")
            ctx.count("evaluations")
            ctx.count("real_process_kills")
            for v in res["viol"]:
                ctx.violation(*v)
    ctx.set("likelihood_calls_per_kill_run", ncalls)
    ctx.set("distinct_nontrivial", len(classes))
    ctx.set("rule", "(a) every checkpoint of every run of the checkpoint lattice (iteration- and time-triggered, checkpoint_on_training, rejection and flow phases, populated/empty pools, masks as list and ndarray, clustering, uniform_nball, inversion, INS variants) compared field by field with its resumed copy; (b) one kill at every likelihood call of a short run of each sampler plus kill pairs on a lattice, each resumed to completion. Distinct/non-trivial: distinct (sampler, phase, pool populated, trained) checkpoint classes and (sampler, number of legs) kill classes")
    ctx.set("exhaustive", True)
    ctx.sample({"checkpoint_config": cfgs[2], "fields": "iteration, live/nested points, integral state, insertion indices, history, pool (samples, indices, populated), training counters, reparameterisation state, acceptance bookkeeping, weights, evaluation counter"})
    ctx.sample({"kill_config": kcfgs[0], "kills": "every likelihood call 1..n, then pairs"})
    ctx.assume(
        "kills are injected as a BaseException raised from the user's likelihood (nothing in nessai catches it); files on disk are whatever the run had written",
        "optimiser moments, sampling_start_time and lazily rebuilt draw functions are not part of the observable state",
        "AugmentedFlowProposal is excluded here (its population never terminates: see C09/C20 known finding)",
    )


def replay(ctx, data):
    if data.get("mode") == "checkpoint":
        r = checkpoint_worker(data["cfg"])
        return [v[1] for v in r["viol"]]
    if data.get("mode") == "real-kill":
        return [v[1] for v in real_kill_worker((data["cfg"], data["k"]))["viol"]]
    r = kill_worker((data["cfg"], tuple(data["kills"])))
    return [v[1] for v in r["viol"]]
