"""C04 - INS sample store stays sorted, partitioned and aligned under all updates.

Explicit-state BFS over all operation sequences of the real
`nessai.samplers.importancesampler.OrderedSamples` on a 4-letter logL alphabet,
for the four strict x replace_all modes, in lock step with a set-based
reference model.  See DESIGN.md section 4 / C04.
"""
import itertools

import numpy as np

from mc import explore

LEVEL = "model_checking"

ALPHABET = (0.0, 1.0, 2.0, 3.0)
MODES = [(s, r) for s in (False, True) for r in (False, True)]


def _dtype():
    from nessai.livepoint import get_dtype

    return get_dtype(["x"])


def make_batch(logls, first_id):
    """Samples carry a unique id in x; log_q row is a function of the id."""
    a = np.zeros(len(logls), dtype=_dtype())
    ids = np.arange(first_id, first_id + len(logls))
    a["x"] = ids
    a["logL"] = logls
    a["logP"] = -(ids.astype(float)) - 0.5
    a["it"] = ids % 3
    log_q = np.stack([ids * 10.0 + 1, ids * 10.0 + 2], axis=1).reshape(-1, 2)
    return a, log_q


class Ref:
    """Boring reference model: dict id -> logL, two id sets."""

    def __init__(self, strict, replace_all):
        self.strict = strict
        self.replace_all = replace_all
        self.logl = {}
        self.live = None
        self.nested = set()
        self.thr = None
        self.next_id = 0

    def _new(self, logls):
        ids = list(range(self.next_id, self.next_id + len(logls)))
        self.next_id += len(logls)
        for i, v in zip(ids, logls):
            self.logl[i] = v
        return ids

    def init(self, logls):
        self.live = set(self._new(logls))

    def threshold(self, t):
        self.thr = t

    def remove(self):
        if self.replace_all:
            n = len(self.live)
            self.nested |= self.live
            self.live = None
            return n
        moved = {i for i in self.live if self.logl[i] < self.thr}
        self.live -= moved
        self.nested |= moved
        return len(moved)

    def add(self, logls):
        ids = set(self._new(logls))
        if self.strict:
            self.live = {i for i, v in self.logl.items() if v >= self.thr}
            self.nested = set(self.logl) - self.live
        else:
            self.live = ids if self.live is None else (self.live | ids)

    def finalise(self):
        self.nested |= self.live
        self.live = None


def _noop(*a, **k):
    return None


def apply(real, ref, ev):
    """Apply one event to the real object and the reference model.

    Returns the pair (real return value, model return value)."""
    kind = ev[0]
    if kind == "init":
        s, q = make_batch(ev[1], ref.next_id)
        s0, q0 = s.tobytes(), q.tobytes()
        real.add_initial_samples(s, q)
        if s.tobytes() != s0 or q.tobytes() != q0:
            raise AssertionError("the batch (samples or log_q) passed to the store was modified by the call")
        ref.init(ev[1])
    elif kind == "thr":
        real.update_log_likelihood_threshold(ev[1])
        ref.threshold(ev[1])
    elif kind == "remove":
        return real.remove_samples(), ref.remove()
    elif kind == "add":
        s, q = make_batch(ev[1], ref.next_id)
        s0, q0 = s.tobytes(), q.tobytes()
        real.add_samples(s, q)
        if s.tobytes() != s0 or q.tobytes() != q0:
            raise AssertionError("the batch (samples or log_q) passed to the store was modified by the call")
        ref.add(ev[1])
    elif kind == "fin":
        # state.update_evidence needs logW etc; not part of this property
        real.state.update_evidence = _noop
        real.finalise()
        ref.finalise()
    else:
        raise ValueError(ev)
    return None, None


def roundtrip(real):
    """Pickle round trip of the store (what a checkpoint / resume does to it).  The density table is
    not pickled unless save_log_q is set - the sampler re-derives it in the stored order - so it is
    carried over by hand."""
    import pickle

    log_q = real.log_q
    new = pickle.loads(pickle.dumps(real))
    if getattr(new, "log_q", None) is None and log_q is not None:
        new.log_q = log_q.copy()
    return new


def build(mode, hist, pickled=False):
    from nessai.samplers.importancesampler import OrderedSamples

    real = OrderedSamples(strict_threshold=mode[0], replace_all=mode[1])
    ref = Ref(*mode)
    rets = None
    for ev in hist:
        rets = apply(real, ref, ev)
        if pickled and ev[0] != "fin":
            real = roundtrip(real)
    return real, ref, rets


def invariant(real, ref, rets, last):
    """Return the name of the first broken clause, or None."""
    s = real.samples
    n = len(ref.logl)
    if s is None or len(s) != n:
        return "size"
    if real.log_q is None or len(real.log_q) != n:
        return "log_q-size"
    if np.any(np.diff(s["logL"]) < 0):
        return "sorted"
    ids = s["x"].astype(int)
    if sorted(ids.tolist()) != list(range(n)):
        return "every-sample-present-once"
    for pos, i in enumerate(ids):
        if s["logL"][pos] != ref.logl[i]:
            return "sample-modified"
        if s["logP"][pos] != -float(i) - 0.5 or s["it"][pos] != i % 3:
            return "sample-modified"
        if real.log_q[pos, 0] != i * 10.0 + 1 or real.log_q[pos, 1] != i * 10.0 + 2:
            return "log_q-row-detached"
    ni = np.asarray(real.nested_samples_indices)
    li = real.live_points_indices
    if ni.ndim != 1 or (len(ni) and (np.any(np.diff(ni) <= 0) or ni.min() < 0 or ni.max() >= n)):
        return "nested-indices-increasing"
    if li is not None:
        li = np.asarray(li)
        if li.ndim != 1 or (len(li) and (np.any(np.diff(li) <= 0) or li.min() < 0 or li.max() >= n)):
            return "live-indices-increasing"
    live_pos = set() if li is None else set(li.tolist())
    nest_pos = set(ni.tolist())
    if live_pos & nest_pos:
        return "partition-disjoint"
    if len(live_pos | nest_pos) != n:
        return "partition-covering"
    if (li is None) != (ref.live is None):
        return "live-none"
    real_live_ids = {int(ids[p]) for p in live_pos}
    real_nest_ids = {int(ids[p]) for p in nest_pos}
    if real_live_ids != (ref.live or set()):
        return "live-set-membership"
    if real_nest_ids != ref.nested:
        return "nested-set-membership"
    if last[0] == "remove":
        if int(rets[0]) != rets[1]:
            return "reported-number-removed"
    if ref.strict and last[0] in ("add", "remove") and li is not None and ref.thr is not None:
        want = {i for i, v in ref.logl.items() if v >= ref.thr}
        if real_live_ids != want:
            return "strict-live-equals-at-or-above-threshold"
    lp = real.live_points
    if li is not None and (len(lp) != len(li)):
        return "live_points-accessor"
    return None


def canon(mode, real, ref):
    s = real.samples
    live = set() if real.live_points_indices is None else set(
        np.asarray(real.live_points_indices).tolist()
    )
    return (
        mode,
        ref.thr,
        real.live_points_indices is None,
        tuple((float(v), p in live) for p, v in enumerate(s["logL"])),
    )


def multisets(maxsize, minsize=0):
    out = []
    for k in range(minsize, maxsize + 1):
        out.extend(itertools.combinations_with_replacement(ALPHABET, k))
    return out


def batch_orders(ms):
    """A batch is handed over in every distinct order for size <= 2, sorted and
    reversed otherwise (the store sorts it first; order must not matter)."""
    if len(ms) <= 1:
        return [tuple(ms)]
    if len(ms) == 2:
        return sorted({tuple(ms), tuple(reversed(ms))})
    return sorted({tuple(ms), tuple(reversed(ms))})


def enabled(mode, real, ref, cfg):
    strict = mode[0]
    evs = []
    live_none = ref.live is None
    if not live_none and ref.live:
        live_vals = sorted({ref.logl[i] for i in ref.live})
        if cfg["wide_thresholds"] and not strict:
            cands = [v for v in ALPHABET if v <= live_vals[-1]]
        else:
            cands = live_vals
        for t in cands:
            if t != ref.thr:
                evs.append(("thr", t))
    if ref.thr is not None and not live_none and ref.live:
        # contract: some live sample is at or above the threshold
        if max(ref.logl[i] for i in ref.live) >= ref.thr:
            evs.append(("remove",))
    can_add = (ref.thr is not None) if strict else True
    if strict and can_add:
        # contract: argmax needs a sample at or above the threshold after the add
        pass
    if can_add:
        for ms in multisets(cfg["max_batch"], 0):
            if strict and not (
                any(v >= ref.thr for v in ms) or any(v >= ref.thr for v in ref.logl.values())
            ):
                continue
            for b in batch_orders(ms):
                evs.append(("add", b))
    if not live_none:
        evs.append(("fin",))
    return evs


def vkey(mode, name, ev):
    m = ("strict" if mode[0] else "soft") + ("+replace_all" if mode[1] else "")
    detail = ev[0]
    if ev[0] in ("add", "init"):
        detail += "-empty" if len(ev[1]) == 0 else ""
    return f"{name}@{detail}:{m}"


def expand(item):
    bi, (mode, cfg), hists = item
    out = []
    for hist in hists:
        real, ref, _ = build(mode, hist, cfg.get("pickled", False))
        succs = []
        for ev in enabled(mode, real, ref, cfg):
            h2 = list(hist) + [ev]
            try:
                r2, m2, rets = build(mode, h2, cfg.get("pickled", False))
            except Exception as e:  # the store raised inside its contract
                name = f"raises-{type(e).__name__}"
                succs.append(
                    (ev, None, (vkey(mode, name, ev), f"{name}: {e} after {h2}", {"mode": mode, "hist": h2}), name)
                )
                continue
            bad = invariant(r2, m2, rets, ev)
            if bad:
                succs.append(
                    (ev, None, (vkey(mode, bad, ev), f"clause '{bad}' broken after {h2} in mode strict={mode[0]} replace_all={mode[1]}", {"mode": mode, "hist": h2}), bad)
                )
                continue
            tag = (ev[0], None if rets is None or rets[0] is None else int(rets[0]))
            succs.append((ev, canon(mode, r2, m2), None, tag))
        out.append(succs)
    return out


def longdouble_worker(mode):
    """Extended-precision log-likelihoods (nessai.config.livepoints.logl_dtype = 'f16'): values that
    differ only beyond float64 precision; the threshold is always the exact stored value of a live
    sample.  Counts removed / strict live set are decided by exact longdouble comparisons."""
    from nessai import config as _cfg
    from nessai.samplers.importancesampler import OrderedSamples

    if np.finfo(np.longdouble).eps >= np.finfo(np.float64).eps:
        return dict(n=0, viol=None)
    saved = _cfg.livepoints.logl_dtype
    _cfg.livepoints.logl_dtype = "f16"
    _cfg.livepoints.reset_properties()
    n_ev = 0
    try:
        one, tiny = np.longdouble(1), np.longdouble(2) ** -60
        for base_n, k_thr in ((6, 3), (9, 1), (9, 8), (5, 2)):
            real = OrderedSamples(strict_threshold=mode[0], replace_all=mode[1])
            vals = [one + tiny * (3 * i + 1) for i in range(base_n)]  # float(v) == 1.0 for all of them
            a, q = make_batch([0.0] * base_n, 0)
            a["logL"] = np.array(vals, dtype=np.longdouble)
            real.add_initial_samples(a, q)
            thr = real.samples["logL"][k_thr].copy()  # exact stored value of a live sample
            real.update_log_likelihood_threshold(thr)
            n_rem = real.remove_samples()
            n_ev += 3
            want = base_n if mode[1] else k_thr
            if int(n_rem) != want:
                return dict(n=n_ev, viol=(vkey(mode, "reported-number-removed", ("remove",)) + ":longdouble", f"longdouble logL differing only beyond float64: threshold = stored value of sample {k_thr} of {base_n}; reported {int(n_rem)} removed, expected {want} (mode {mode})", {"mode": mode, "longdouble": True}))
            if mode[0]:
                b, qb = make_batch([0.0, 0.0], base_n)
                b["logL"] = np.array([one + tiny * (3 * k_thr), one + tiny * (3 * k_thr + 2)], dtype=np.longdouble)  # just below / just above
                real.add_samples(b, qb)
                n_ev += 1
                live = real.samples["logL"][np.asarray(real.live_points_indices)] if real.live_points_indices is not None else np.array([], dtype=np.longdouble)
                want_live = np.sort(real.samples["logL"][real.samples["logL"] >= thr])
                if len(live) != len(want_live) or np.any(np.sort(live) != want_live):
                    return dict(n=n_ev, viol=(vkey(mode, "strict-live-equals-at-or-above-threshold", ("add", (0.0,))) + ":longdouble", f"longdouble logL: {len(live)} live vs {len(want_live)} at or above the threshold (mode {mode})", {"mode": mode, "longdouble": True}))
    except Exception as e:
        return dict(n=n_ev, viol=(vkey(mode, f"raises-{type(e).__name__}", ("remove",)) + ":longdouble", f"{e} (longdouble scenario, mode {mode})", {"mode": mode, "longdouble": True}))
    finally:
        _cfg.livepoints.logl_dtype = saved
        _cfg.livepoints.reset_properties()
    return dict(n=n_ev, viol=None)


def long_history_worker(item):
    """Long structured histories with large batches (ties forced by an 8-value alphabet mixed with
    distinct values); the invariant is evaluated after every event.  The inputs are a fixed function
    of (mode, seed, index) - these are extra fixed cases, not a statistical test."""
    mode, seed, idx, length, max_batch = item
    from nessai.samplers.importancesampler import OrderedSamples

    rs = np.random.RandomState(1000 * seed + 17 * idx + 2 * int(mode[0]) + int(mode[1]))
    real = OrderedSamples(strict_threshold=mode[0], replace_all=mode[1])
    ref = Ref(*mode)
    hist = []

    def batch_vals(n):
        tied = rs.choice([0.0, 0.5, 1.0, 1.5, 2.0, 2.5, 3.0, 3.5], size=n)
        cont = np.round(rs.uniform(0, 4, size=n), 3)
        return tuple(float(v) for v in np.where(rs.rand(n) < 0.6, tied, cont))

    ev = ("init", batch_vals(rs.randint(1, max_batch)))
    try:
        rets = apply(real, ref, ev)
        hist.append(ev)
        for step in range(length):
            choices = []
            live = None if ref.live is None else sorted(ref.logl[i] for i in ref.live)
            if live:
                choices += ["thr"] * 3
            if ref.thr is not None and live and live[-1] >= ref.thr:
                choices += ["remove"] * 2
            if (not mode[0]) or (ref.thr is not None):
                choices += ["add"] * 3
            kind = choices[rs.randint(len(choices))]
            if kind == "thr":
                ev = ("thr", live[rs.randint(len(live))])
            elif kind == "remove":
                ev = ("remove",)
            else:
                vals = batch_vals(rs.randint(0, max_batch))
                if mode[0] and not (any(v >= ref.thr for v in vals) or any(v >= ref.thr for v in ref.logl.values())):
                    continue
                ev = ("add", vals)
            rets = apply(real, ref, ev)
            hist.append(ev)
            if len(hist) % 7 == 0:
                real = roundtrip(real)
            bad = invariant_fast(real, ref, rets, ev)
            if bad:
                return dict(n=len(hist), viol=(vkey(mode, bad, ev) + ":long", f"clause '{bad}' broken at event {len(hist)} of a long history (mode {mode}, seed {seed}, index {idx})", {"mode": mode, "long": [seed, idx, length, max_batch]}))
        ev = ("fin",)
        if ref.live is not None:
            rets = apply(real, ref, ev)
            bad = invariant_fast(real, ref, rets, ev)
            if bad:
                return dict(n=len(hist), viol=(vkey(mode, bad, ev) + ":long", f"clause '{bad}' broken at finalise of a long history (mode {mode}, seed {seed}, index {idx})", {"mode": mode, "long": [seed, idx, length, max_batch]}))
    except Exception as e:
        name = f"raises-{type(e).__name__}"
        return dict(n=len(hist), viol=(vkey(mode, name, ev) + ":long", f"{name}: {e} at event {len(hist) + 1} of a long history (mode {mode}, seed {seed}, index {idx})", {"mode": mode, "long": [seed, idx, length, max_batch]}))
    return dict(n=len(hist), viol=None, size=len(ref.logl))


def invariant_fast(real, ref, rets, last):
    """Vectorised version of `invariant` for stores with thousands of samples."""
    s = real.samples
    n = len(ref.logl)
    if s is None or len(s) != n or real.log_q is None or len(real.log_q) != n:
        return "size"
    if np.any(np.diff(s["logL"]) < 0):
        return "sorted"
    ids = s["x"].astype(int)
    if not np.array_equal(np.sort(ids), np.arange(n)):
        return "every-sample-present-once"
    want = np.array([ref.logl[i] for i in ids.tolist()])
    if not np.array_equal(s["logL"], want) or not np.array_equal(s["logP"], -ids - 0.5) or not np.array_equal(s["it"], ids % 3):
        return "sample-modified"
    if not np.array_equal(real.log_q[:, 0], ids * 10.0 + 1) or not np.array_equal(real.log_q[:, 1], ids * 10.0 + 2):
        return "log_q-row-detached"
    ni = np.asarray(real.nested_samples_indices)
    li = real.live_points_indices
    if len(ni) and (np.any(np.diff(ni) <= 0) or ni.min() < 0 or ni.max() >= n):
        return "nested-indices-increasing"
    if li is not None:
        li = np.asarray(li)
        if len(li) and (np.any(np.diff(li) <= 0) or li.min() < 0 or li.max() >= n):
            return "live-indices-increasing"
    live_pos = np.array([], dtype=int) if li is None else li
    if len(np.intersect1d(live_pos, ni)):
        return "partition-disjoint"
    if len(live_pos) + len(ni) != n:
        return "partition-covering"
    if (li is None) != (ref.live is None):
        return "live-none"
    if set(ids[live_pos].tolist()) != (ref.live or set()):
        return "live-set-membership"
    if set(ids[ni].tolist()) != ref.nested:
        return "nested-set-membership"
    if last[0] == "remove" and int(rets[0]) != rets[1]:
        return "reported-number-removed"
    return None


def run(ctx):
    cfg = dict(
        max_batch=2 if ctx.quick else 3,
        wide_thresholds=not ctx.quick,
    )
    depth = 5 if ctx.quick else 6
    tot_states = tot_trans = 0
    outcomes = set()
    maxd = 0
    exhausted_all = True
    for mode in MODES:
        roots = []
        for ms in multisets(cfg["max_batch"], 0):
            for b in batch_orders(ms):
                hist = [("init", b)]
                try:
                    real, ref, rets = build(mode, hist)
                    bad = invariant(real, ref, rets, hist[-1])
                except Exception as e:
                    bad = f"raises-{type(e).__name__}"
                if bad:
                    ctx.violation(vkey(mode, bad, hist[-1]), f"{bad} after {hist}", {"mode": mode, "hist": hist})
                    continue
                roots.append((canon(mode, real, ref), hist))

        r = explore.bfs(ctx, roots, expand, depth - 1, chunk=48, extra=(mode, cfg))
        tot_states += r["states"]
        tot_trans += r["transitions"] + len(roots)
        outcomes |= r["outcomes"]
        maxd = max(maxd, r["max_depth"] + 1)
        # the same exploration with a pickle round trip of the store after every event (a checkpoint /
        # resume between any two operations), one level shallower
        rp = explore.bfs(ctx, roots, expand, depth - 2, chunk=48, extra=(mode, dict(cfg, pickled=True)))
        tot_states += rp["states"]
        tot_trans += rp["transitions"]
        outcomes |= rp["outcomes"]
        ctx.count("transitions_with_a_pickle_round_trip", rp["transitions"])
        if r["longest"]:
            ctx.sample({"mode": mode, "longest_word": r["longest"]})
        ctx.sample({"mode": mode, "shortest_word": r["shortest"][0] if r["shortest"] else None})
        exhausted_all &= True
    # extended-precision log-likelihoods
    for it, res in ctx.pmap(longdouble_worker, list(MODES)):
        ctx.count("longdouble_events", res["n"])
        if res["viol"]:
            ctx.violation(*res["viol"])
    # long structured histories with large batches
    n_long = 2 if ctx.quick else 12
    length, mb = (150, 30) if ctx.quick else (400, 60)
    long_events = 0
    for it, res in ctx.pmap(long_history_worker, [(m, ctx.seed, i, length, mb) for m in MODES for i in range(n_long)]):
        long_events += res["n"]
        if res["viol"]:
            ctx.violation(*res["viol"])
    tot_trans += long_events
    ctx.set("long_history_events", long_events)
    ctx.set("states", tot_states)
    ctx.set("transitions", tot_trans)
    ctx.set("traces_validated_against_impl", tot_trans)
    ctx.set("max_depth", maxd)
    ctx.set("distinct_outcomes", len(outcomes))
    ctx.set("bounds", dict(alphabet=ALPHABET, max_batch=cfg["max_batch"], depth=depth, modes=4,
                           wide_thresholds=cfg["wide_thresholds"]))
    ctx.set("exhaustive", True)
    ctx.assume(
        "thresholds are the logL of a live sample (C17's contract); in soft mode (thorough) any alphabet value <= max live",
        "every explored execution is an execution of the real OrderedSamples; the model is only the oracle",
        "state.update_evidence is stubbed in finalise (evidence numerics belong to C03/C05)",
    )


def replay(ctx, data):
    mode = tuple(data["mode"])
    if data.get("longdouble"):
        r = longdouble_worker(mode)
        return [r["viol"][1]] if r["viol"] else []
    if "long" in data:
        r = long_history_worker((mode,) + tuple(data["long"]))
        return [r["viol"][1]] if r["viol"] else []
    hist = [tuple(tuple(x) if isinstance(x, list) else x for x in ev) for ev in data["hist"]]
    try:
        real, ref, rets = build(mode, hist)
    except Exception as e:
        return [f"raises {type(e).__name__}: {e} on {hist}"]
    bad = invariant(real, ref, rets, hist[-1])
    return [f"clause {bad} broken on {hist}"] if bad else []
