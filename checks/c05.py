"""C05 - returned results are mutually consistent and faithful to the model.

Completed runs of both samplers over the configuration lattices x resume
histories; evidence, uncertainty, posterior weights, sample counts and model
fidelity are recomputed from the returned arrays by independent (mpmath) code.
"""
from mc import runs

LEVEL = "exploration"


def worker(cfg):
    if cfg["kind"] == "std":
        return runs.run_standard_case(cfg, want=("c05",))
    return runs.run_ins_case(cfg, want=("c05",))


def run(ctx):
    cfgs = runs.standard_lattice(ctx.seed, ctx.quick)
    # resume histories for the standard sampler: once (at the first checkpoint) and at every checkpoint
    cfgs += [
        {"kind": "std", "model": "G2", "seed": ctx.seed, "kwargs": {}, "resume": "at", "kill_at": (1,)},
        {"kind": "std", "model": "G2", "seed": ctx.seed, "kwargs": {}, "run_kwargs": {"posterior_sampling_method": "multinomial_resampling"}, "resume": "none"},
        {"kind": "ins", "model": "G2", "seed": ctx.seed, "kwargs": {}, "run_kwargs": {"posterior_sampling_method": "rejection_sampling"}, "resume": "none"},
        {"kind": "std", "model": "G2", "seed": ctx.seed, "kwargs": {"max_iteration": 30}, "resume": "at", "kill_at": (1,)},
        {"kind": "std", "model": "G3", "seed": ctx.seed, "kwargs": {"shrinkage_expectation": "t"}, "resume": "every"},
    ]
    cfgs += runs.ins_lattice(ctx.seed, True if ctx.quick else False, resume_subsets=True)
    # plus every valid single option value of the C20 alphabet, both samplers
    cfgs += runs.option_sweep("std", ctx.seed) + runs.option_sweep("ins", ctx.seed)
    keys = set()
    capped = 0
    for cfg, res in ctx.pmap(worker, cfgs):
        ctx.count("evaluations")
        if res.get("rejected_up_front"):
            ctx.count("rejected_up_front")
        if res.get("draw_cap"):
            ctx.count("runs_cut_by_nonterminating_ins_draw")
        if res["resumes"]:
            ctx.count("runs_with_resume")
        if res.get("finalised") is False:
            capped += 1
        keys.add((res["key"], str(cfg.get("kill_at"))))
        if cfg.get("sweep"):
            ctx.count("runs_from_the_option_sweep")
        for clause, detail in runs.sweep_errs(cfg, res["errs"])[:2]:
            ctx.violation(f"{clause}@{res['key']}", f"{clause}: {detail} (config {cfg})", {"cfg": cfg})
    ctx.set("runs_cut_by_iteration_cap", capped)
    ctx.set("distinct_nontrivial", len(keys))
    ctx.set("rule", "standard-sampler lattice (default + single deviations over proposal class, latent prior, reparameterisation, flow type, shrinkage, nlive, caps; thorough: + resume-at-every-checkpoint for each and two seeds) and INS lattice (quick: single deviations; thorough: full product) x resume histories {none, once, every checkpoint, every subset for the INS default}; plus every valid single option value of the C20 option alphabet for both samplers (about 240 more configurations). Distinct/non-trivial: distinct (configuration, resume history) pairs that completed and were recomputed")
    ctx.set("exhaustive", True)
    ctx.sample({"config": cfgs[0], "recomputed": ["logZ (trapezoid, mpmath)", "information recursion", "sqrt(H/nlive)", "log posterior weights", "sample count", "logL/logP from the model", "birth logL", "posterior samples are rows"]})
    ctx.assume(
        "the information is recomputed with nessai's documented recursion (zero until two finite contributions exist)",
        "with draw_iid_live=False and no redraw the result dictionary documents its final-sample entries as None",
    )


def replay(ctx, data):
    res = worker(data["cfg"])
    return [f"{c}: {d}" for c, d in res["errs"]]
