"""C11 - a process kill during checkpointing never leaves the run unresumable.

For selected checkpoints / weights saves of real runs of both samplers the
file-operation sequence of the real code is recorded (E3) and EVERY crash point
of it - including byte prefixes of files under construction - is turned into an
on-disk image; `FlowSampler(resume=True)` must load from each image a state
equal to the previous or the new checkpoint (weights: previous or new file,
never torn, never silently random) and be able to continue sampling.
"""
import copy
import hashlib
import os
import shutil
import subprocess
import sys

import numpy as np

from mc import faultfs, runs
from mc.tinymodels import KillSignal, make

LEVEL = "fault_enumeration"


class Done(BaseException):
    pass


HISTORIES = [
    # (name, sampler kind, target, which call, extra kwargs)
    ("std:checkpoint#1", "std", "dump", 1, {}),
    ("std:checkpoint#2", "std", "dump", 2, {}),
    ("std:weights#1", "std", "weights", 1, {}),
    # a checkpoint completed in the uninformed phase exists when the very first weights file is written
    ("std:weights#1,after-early-checkpoint", "std", "weights", 1, {"checkpoint_interval": 5}),
    ("std:weights#2", "std", "weights", 2, {}),
    ("std:weights#3", "std", "weights", 3, {}),
    ("ins:checkpoint#1", "ins", "dump", 1, {}),
    ("ins:checkpoint#2", "ins", "dump", 2, {}),
    ("ins:checkpoint#2,save_existing", "ins", "dump", 2, {"save_existing_checkpoint": True}),
    ("ins:checkpoint#3,save_existing", "ins", "dump", 3, {"save_existing_checkpoint": True}),
    # late histories: more than ten levels on disk (level_10 sorts before level_2)
    ("ins:checkpoint#12,late", "ins", "dump", 12, {"max_iteration": 14, "min_iteration": 14}),
    ("ins:weights#12,late", "ins", "weights", 12, {"max_iteration": 14, "min_iteration": 14}),
    ("ins:weights#1", "ins", "weights", 1, {}),
    ("ins:weights#2", "ins", "weights", 2, {}),
]


def base_kwargs(kind, seed, extra):
    if kind == "std":
        return runs.std_base(seed, **extra)
    return runs.ins_base(seed, **extra)


def record(hist, seed):
    """Run a real run up to the chosen call, record its file operations."""
    from nessai.flowsampler import FlowSampler
    import nessai.samplers.base as sbase
    from nessai.flowmodel.base import FlowModel

    name, kind, target, which, extra = hist
    runs.reset_globals()
    out = runs.scratch("c11rec")
    kw = base_kwargs(kind, seed, extra)
    rec = faultfs.Recorder(out)
    state = dict(n=0, pre=None, post=None)
    o_dump, o_save = sbase.safe_file_dump, FlowModel.save_weights

    def window(fn, *a, **k):
        state["n"] += 1
        if state["n"] != which:
            return fn(*a, **k)
        state["pre"] = faultfs.snapshot(out)
        rec.active = True
        try:
            r = fn(*a, **k)
        finally:
            rec.active = False
        state["post"] = faultfs.snapshot(out)
        raise Done()

    def dump(*a, **k):
        if target == "dump":
            return window(o_dump, *a, **k)
        return o_dump(*a, **k)

    def save(self, *a, **k):
        if target == "weights":
            return window(lambda *aa, **kk: o_save(self, *aa, **kk), *a, **k)
        return o_save(self, *a, **k)

    sbase.safe_file_dump, FlowModel.save_weights = dump, save
    try:
        with rec.recording():
            model = make("G2")
            try:
                fs = FlowSampler(model, output=out, resume=False, **copy.deepcopy(kw))
                fs.run(plot=False, save=False)
                raise RuntimeError(f"history {name}: the run finished before call #{which} of {target}")
            except Done:
                pass
    finally:
        sbase.safe_file_dump, FlowModel.save_weights = o_dump, o_save
    # checkpoints store absolute paths of the weights files: images are materialised in place
    return dict(hist=hist, kw=kw, pre=state["pre"], post=state["post"], ops=rec.ops, out=out)


def weights_digest(ns, kind):
    import torch

    h = hashlib.sha1()
    if kind == "std":
        fp = ns._flow_proposal
        flow = getattr(fp, "flow", None)
        if flow is None or getattr(flow, "model", None) is None:
            return "no-flow"
        wf = getattr(fp, "weights_file", None) or getattr(flow, "weights_file", None)
        if wf is None:
            return "no-weights-referenced"
        for k, v in sorted(flow.model.state_dict().items()):
            h.update(k.encode())
            h.update(v.cpu().numpy().tobytes())
        return h.hexdigest()[:12]
    flow = getattr(ns.proposal, "flow", None)
    if flow is None:
        return "no-flow"
    models = flow.models
    for m in models:
        for k, v in sorted(m.state_dict().items()):
            h.update(k.encode())
            h.update(v.cpu().numpy().tobytes())
    return f"{len(models)}:{h.hexdigest()[:12]}"


def sampler_digest(ns, kind):
    d = runs.std_digest(ns) if kind == "std" else runs.ins_digest(ns)
    return hashlib.sha1(repr(sorted(d.items())).encode()).hexdigest()[:12]


def try_resume(image, kind, kw, workdir, continue_run=False):
    """Resume from an image.  Returns dict(ok, s, w, err, temp_read, cont_errs)."""
    import builtins
    from nessai.flowsampler import FlowSampler

    runs.reset_globals()
    faultfs.materialise(image, workdir)
    opened = []
    o_open = builtins.open

    def open_(file, mode="r", *a, **k):
        if isinstance(file, (str, os.PathLike)):
            opened.append(str(file))
        return o_open(file, mode, *a, **k)

    model = make("G2")
    res = dict(ok=False, s=None, w=None, err=None, temp_read=False, cont=None)
    builtins.open = open_
    try:
        fs = FlowSampler(model, output=workdir, resume=True, **copy.deepcopy(kw))
    except Exception as e:
        res["err"] = f"{type(e).__name__}: {str(e)[:200]}"
        return res
    finally:
        builtins.open = o_open
    res["temp_read"] = any(p.endswith(".temp") for p in opened)
    ns = fs.ns
    try:
        if kind == "std":
            ns.initialise()
        fresh = (ns.iteration == 0 and not ns.nested_samples) if kind == "std" else (ns.training_samples.samples is None)
        res["s"] = "fresh" if fresh else sampler_digest(ns, kind)
        res["w"] = weights_digest(ns, kind)
        res["wf"] = getattr(getattr(ns, "_flow_proposal", None), "weights_file", None) if kind == "std" else None
        res["iteration"] = ns.iteration
        res["ok"] = True
    except Exception as e:
        res["err"] = f"after-resume {type(e).__name__}: {str(e)[:200]}"
        return res
    if continue_run:
        from mc.monitors import StdMonitor

        mon = StdMonitor() if kind == "std" else runs.InsMonitor()
        if kind == "ins":
            mon.rederived = not kw.get("save_log_q", False)  # the table was re-derived in float32 on resume
        errs = []
        try:
            with mon.installed(), (runs.std_draw_cap() if kind == "std" else runs.ins_draw_cap()):
                fs.run(plot=False, save=False)
            errs += mon.errs[:2]
            if not errs:
                (runs.check_std_results if kind == "std" else runs.check_ins_results)(fs, model, errs)
        except runs.DrawCap as e:
            errs.append(("continuation-does-not-terminate", str(e)[:200]))
        except Exception as e:
            errs.append((f"continuation-raises-{type(e).__name__}", str(e)[:200]))
        res["cont"] = errs
    return res


def history_worker(item):
    hist, seed, step = item
    name, kind, target, which, extra = hist
    errs = []
    work = None
    n = 0
    classes = {}
    try:
        try:
            rec = record(hist, seed)
        except Exception as e:
            return dict(name=name, errs=[(f"record-failed:{name}", f"{type(e).__name__}: {e}")], n=0, classes=0, ops=[], harness=True)
        kw = rec["kw"]
        work = rec["out"]
        ref_pre = try_resume(rec["pre"], kind, kw, work)
        ref_post = try_resume(rec["post"], kind, kw, work)
        if not ref_post["ok"]:
            errs.append((f"complete-state-not-resumable:{name}", ref_post["err"]))
        allowed_s = {ref_post["s"]}
        allowed_w = {ref_post["w"]}
        if ref_pre["ok"]:
            allowed_s.add(ref_pre["s"])
            allowed_w.add(ref_pre["w"])
        for label, image in faultfs.crash_images(rec["pre"], rec["ops"], prefix_step=step):
            r = try_resume(image, kind, kw, work)
            n += 1
            point = label.split("+")[0]
            torn = "+prefix" in label
            cls_label = f"{point.split(':')[1] if ':' in point else point}{'/torn' if torn else ''}"
            if not r["ok"]:
                errs.append((f"unresumable:{name}@{cls_label}", f"resume from crash image '{label}' failed: {r['err']}"))
                classes.setdefault(("fail", cls_label), label)
                continue
            if r["temp_read"]:
                errs.append((f"resume-reads-temp-file:{name}", label))
            if r["s"] not in allowed_s:
                errs.append((f"loaded-state-is-neither-previous-nor-new:{name}@{cls_label}", f"crash image '{label}': sampler digest {r['s']} not in {allowed_s} (iteration {r.get('iteration')})"))
            if r["w"] not in allowed_w:
                errs.append((f"loaded-weights-are-neither-previous-nor-new:{name}@{cls_label}", f"crash image '{label}': weights digest {r['w']} not in {allowed_w}"))
            if kind == "std" and target == "weights" and r.get("wf"):
                # naming the recorded weights file explicitly on resume (`weights_path=` and its older
                # spelling `weights_file=`) is the same request as not naming it: same crash image, same outcome
                for opt in ("weights_path", "weights_file"):
                    r2 = try_resume(image, kind, {**kw, opt: r["wf"]}, work)
                    n += 1
                    if not r2["ok"]:
                        errs.append((f"unresumable-with-explicit-{opt}:{name}@{cls_label}", f"resume from crash image '{label}' with {opt}=<recorded file> failed: {r2['err']} (without the option it succeeds)"))
                    elif (r2["s"], r2["w"]) != (r["s"], r["w"]):
                        errs.append((f"explicit-{opt}-changes-what-is-loaded:{name}@{cls_label}", f"crash image '{label}': {(r2['s'], r2['w'])} vs {(r['s'], r['w'])}"))
            key = (r["s"], r["w"])
            if key not in classes:
                classes[key] = label
                rc = try_resume(image, kind, kw, work, continue_run=True)
                n += 1
                if rc["cont"]:
                    errs.append((f"cannot-continue:{name}@{cls_label}", f"from crash image '{label}': {rc['cont'][0]}"))
    finally:
        if work:
            shutil.rmtree(work, ignore_errors=True)
    seen, viol = set(), []
    for k, d in errs:
        if k not in seen:
            seen.add(k)
            viol.append((k, d, {"hist": list(hist[:4]) + [hist[4]], "case": d}))
    return dict(name=name, errs=viol, n=n, classes=len(classes), ops=faultfs.describe(rec["ops"]), harness=False)


def real_kill_worker(item):
    """Thorough: kill a real child process (os._exit) just before each file operation of the
    history's call and run the same resume oracle on the directory it leaves behind."""
    import json as _json

    hist, seed, op_index = item
    name, kind, target, which, extra = hist
    out = runs.scratch("c11kill")
    env = dict(os.environ)
    env["PYTHONPATH"] = core_repo() + os.pathsep + env.get("PYTHONPATH", "")
    env["NESSAI_REPO"] = core_repo()
    p = subprocess.run(
        [sys.executable, os.path.join(os.path.dirname(os.path.dirname(os.path.abspath(__file__))), "mc", "c11_child.py"), kind, target, str(which), str(op_index), out, str(seed), _json.dumps(extra)],
        env=env, capture_output=True, text=True, timeout=600,
    )
    errs = []
    res = dict(name=name, op_index=op_index, rc=p.returncode, errs=errs)
    if p.returncode not in (137, 138):
        shutil.rmtree(out, ignore_errors=True)
        res["harness"] = f"child exited with {p.returncode}: {p.stderr[-300:]}"
        return res
    kw = base_kwargs(kind, seed, extra)
    snap = faultfs.snapshot(out)
    res["files"] = sorted(snap)
    r = try_resume(snap, kind, kw, out, continue_run=True)
    if not r["ok"]:
        errs.append((f"unresumable-after-real-kill:{name}@op{op_index}", r["err"]))
    elif r["cont"]:
        errs.append((f"cannot-continue-after-real-kill:{name}@op{op_index}", str(r["cont"][0])))
    res["iteration"] = r.get("iteration")
    shutil.rmtree(out, ignore_errors=True)
    return res


def core_repo():
    from mc import core

    return core.REPO


def second_crash_worker(item):
    """Thorough: crash, resume, run to the next checkpoint, crash again (operation boundaries)."""
    from nessai.flowsampler import FlowSampler
    import nessai.samplers.base as sbase

    hist, seed = item
    name, kind, target, which, extra = hist
    errs = []
    n = 0
    work = None
    try:
        rec = record(hist, seed)
        kw = rec["kw"]
        work = rec["out"]
        firsts = [(lab, img) for lab, img in faultfs.crash_images(rec["pre"], rec["ops"], prefix_step=10 ** 9) if "+prefix" not in lab or lab.endswith("+prefix0/0")]
        for lab1, img1 in firsts:
            faultfs.materialise(img1, work)
            runs.reset_globals()
            rec2 = faultfs.Recorder(work)
            state = dict(pre=None, post=None, n=0)
            o_dump = sbase.safe_file_dump

            def dump(*a, **k):
                state["n"] += 1
                if state["n"] != 1:
                    return o_dump(*a, **k)
                state["pre"] = faultfs.snapshot(work)
                rec2.active = True
                try:
                    r = o_dump(*a, **k)
                finally:
                    rec2.active = False
                state["post"] = faultfs.snapshot(work)
                raise Done()

            sbase.safe_file_dump = dump
            try:
                with rec2.recording():
                    try:
                        fs = FlowSampler(make("G2"), output=work, resume=True, **copy.deepcopy(kw))
                        fs.run(plot=False, save=False)
                        continue  # finished without another checkpoint
                    except Done:
                        pass
                    except Exception as e:
                        errs.append((f"second-leg-raises-{type(e).__name__}:{name}", f"after first crash '{lab1}': {e}"))
                        continue
            finally:
                sbase.safe_file_dump = o_dump
            ops2 = list(rec2.ops)
            pre2, post2 = state["pre"], state["post"]
            allowed = set()
            for img in (pre2, post2):
                r0 = try_resume(img, kind, kw, work, continue_run=False)
                if r0["ok"]:
                    allowed.add(r0["s"])
            for lab2, img2 in faultfs.crash_images(pre2, ops2, prefix_step=10 ** 9):
                if "+prefix" in lab2 and not lab2.endswith("/0"):
                    continue
                r = try_resume(img2, kind, kw, work, continue_run=False)
                n += 1
                if not r["ok"]:
                    errs.append((f"unresumable-after-second-crash:{name}", f"first crash '{lab1}', second crash '{lab2}': {r['err']}"))
                elif r["s"] not in allowed:
                    what = "starts afresh although a checkpoint had completed" if r["s"] == "fresh" else f"loads {r['s']}"
                    errs.append((f"state-after-second-crash-is-neither-previous-nor-new:{name}", f"first crash '{lab1}', resumed and ran to its next checkpoint, second crash '{lab2}': the resume {what} (allowed {sorted(map(str, allowed))}); files {sorted(img2)}"))
    except Exception as e:
        return dict(name=name, errs=[], n=0, harness=f"{type(e).__name__}: {e}")
    finally:
        if work:
            shutil.rmtree(work, ignore_errors=True)
    seen, viol = set(), []
    for k, d in errs:
        if k not in seen:
            seen.add(k)
            viol.append((k, d, {"hist": list(hist[:4]) + [hist[4]], "case": d}))
    return dict(name=name, errs=viol, n=n)


def history_ops(item):
    """Number of operation boundaries of a history as seen by the real-kill child's counter."""
    hist, seed = item
    rec = record(hist, seed)
    shutil.rmtree(rec["out"], ignore_errors=True)
    n = 0
    for op in rec["ops"]:
        n += 1 if op[0] != "flush" else 0
    return n


def run(ctx):
    step = 256 if ctx.quick else 16
    hists = HISTORIES if not ctx.quick else [h for h in HISTORIES if h[0] not in ("std:weights#3", "ins:checkpoint#3,save_existing")]
    total_classes = 0
    for it, res in ctx.pmap(history_worker, [(h, ctx.seed, step if "late" not in h[0] else 10**7) for h in hists]):
        if res.get("harness"):
            raise RuntimeError(f"recording failed: {res['errs']}")
        ctx.count("evaluations", res["n"])
        total_classes += res["classes"]
        for v in res["errs"]:
            ctx.violation(*v)
        ctx.sample({"history": res["name"], "file_operations": res["ops"][:12], "crash_images": res["n"]}, limit=12)
    if not ctx.quick:
        # real kills at every operation boundary of every history
        n_ops = {}
        for it, res in ctx.pmap(history_ops, [(h, ctx.seed) for h in hists]):
            n_ops[it[0][0]] = res
        kills = [(h, ctx.seed, i) for h in hists for i in range(n_ops[h[0]] + 1)]
        validated = 0
        for it, res in ctx.pmap(real_kill_worker, kills, nproc=12):
            if res.get("harness"):
                raise RuntimeError(f"real-kill child failed: {res['harness']} for {it}")
            ctx.count("evaluations")
            validated += 1
            for k, d in res["errs"]:
                ctx.violation(k, d, {"hist": list(it[0][:4]) + [it[0][4]], "case": d})
        ctx.set("traces_validated_against_impl", validated)
    # two-crash histories: crash, resume, run to the next checkpoint, crash again
    two = [h for h in hists if h[2] == "dump" and (not ctx.quick or h[0] in ("std:checkpoint#2", "ins:checkpoint#2,save_existing", "ins:checkpoint#2"))]
    for it, res in ctx.pmap(second_crash_worker, [(h, ctx.seed) for h in two]):
        if res.get("harness"):
            raise RuntimeError(f"two-crash history failed: {res['harness']}")
        ctx.count("evaluations", res["n"])
        ctx.count("two_crash_images", res["n"])
        for v in res["errs"]:
            ctx.violation(*v)
    ctx.set("distinct_nontrivial", total_classes)
    ctx.set("histories", len(hists))
    ctx.set("rule", "for each history (checkpoint #k / weights save #k of a real standard or INS run, with and without keeping the previous checkpoint) every crash point of the recorded file-operation log: before each op, after the last, and for a file open for writing every byte prefix on a lattice (0, 1, n/2, n-1, n and every `prefix_step` bytes). Distinct/non-trivial: distinct (loaded sampler state, loaded weights) classes over all images, each additionally continued to completion under the C01/C03 monitors and the C05 oracle. Two-crash histories: from every operation-boundary image of a checkpoint history the run is resumed up to its next checkpoint, whose operation-boundary images are enumerated again; each must load the state before or after that second checkpoint (never a fresh start once a checkpoint had completed). Weights histories of the standard sampler: every image is also resumed with the recorded weights file named explicitly (weights_path= / weights_file=), which must load exactly what the plain resume loads")
    ctx.set("bounds", dict(prefix_step=step, histories=[h[0] for h in hists]))
    ctx.set("exhaustive", True)
    ctx.assume(
        "process-kill semantics (no power loss): completed renames and closed files persist; a file open for writing may hold any prefix of the bytes written",
        "torch.save writes through its own C++ zip writer; its crash images are modelled as every byte prefix of the completed file",
        "resume never opens the .temp file (asserted on every resume), so prefixes of the temp file are equivalent; the weights file is read on resume and its prefixes are enumerated on the lattice",
    )


def replay(ctx, data):
    h = data["hist"]
    res = history_worker(((h[0], h[1], h[2], h[3], h[4]), ctx.seed, 256))
    return [f"{k}: {d}" for k, d, _ in res["errs"]]
