"""C16 - posterior resampling follows the posterior weights.

Exhaustive over all log-weight vectors of length 1..5 over a 6-letter alphabet
(x constant shifts).  The probabilistic clauses are decided exactly: the
uniform variates of rejection sampling are enumerated on a lattice (E6), so
"kept with probability w/max w" becomes "kept iff u < w/max w for every lattice
value u"; `numpy.random.choice` is a seam whose arguments are checked and whose
every scripted answer must be passed through unchanged.
"""
import itertools
import math

import numpy as np

from mc import rng

LEVEL = "exploration"

LETTERS = [float("-inf"), -745.0, -50.0, -1.0, 0.0, 3.0]
SHIFTS = [0.0, 700.0, -700.0, 1e5]
U_EXTRA = [0.0, 5e-324, 1e-300, 1.0 - 2.0 ** -53]


def nested(n):
    from nessai.livepoint import get_dtype

    a = np.zeros(n, dtype=get_dtype(["x", "y"]))
    a["x"] = np.arange(n)
    a["y"] = -np.arange(n) * 0.5
    a["logL"] = np.arange(n) * 1.0
    a["logP"] = -1.0
    return a


def ratio(lw):
    """w_i / max w at 40 digits."""
    import mpmath as mp

    mp.mp.dps = 40
    m = max(lw)
    return [mp.exp(mp.mpf(v) - mp.mpf(m)) if math.isfinite(v) else mp.mpf(0) for v in lw]


def u_lattice(K):
    return [(k + 0.5) / K for k in range(K)] + U_EXTRA


def check_rejection(lw, us, errs, tag):
    """One run of rejection sampling with the uniform variates forced to `us`."""
    import mpmath as mp
    from nessai.posterior import draw_posterior_samples

    n = len(lw)
    ns = nested(n)
    before = ns.copy()
    uarr = np.array(us, dtype=float)
    with rng.patch_rand(lambda shape, name: uarr.copy() if shape == (n,) else None, callers={"draw_posterior_samples"}):
        try:
            with np.errstate(all="ignore"):
                _lw = np.array(lw, dtype=float)
                _lw0, _ns0 = _lw.tobytes(), ns.tobytes()
                post, idx = draw_posterior_samples(ns, log_w=_lw, method="rejection_sampling", return_indices=True)
                if _lw.tobytes() != _lw0 or ns.tobytes() != _ns0:
                    errs.append(("rejection-modifies-its-input-arrays", f"log_w={lw} -> {_lw}"))
        except Exception as e:
            errs.append((f"rejection-raises-{type(e).__name__}", f"{e} log_w={lw} u={us}"))
            return None
    # the decisions are a function of (log_w, u) only: a library-wide numerical floor
    # (`nessai.config.general.eps`, set through FlowSampler(eps=...)) is not an input
    from nessai import config as _config

    _eps0 = _config.general.eps
    for _eps in (0.05,):
        _config.general.eps = _eps
        try:
            with rng.patch_rand(lambda shape, name: uarr.copy() if shape == (n,) else None, callers={"draw_posterior_samples"}):
                with np.errstate(all="ignore"):
                    _, idx2 = draw_posterior_samples(ns, log_w=np.array(lw, dtype=float), method="rejection_sampling", return_indices=True)
            if np.asarray(idx2).tobytes() != np.asarray(idx).tobytes():
                errs.append(("rejection-decisions-depend-on-config-eps", f"eps={_eps}: kept {list(map(int, idx2))} vs {list(map(int, idx))} log_w={lw} u={us}"))
        except Exception as e:
            errs.append((f"rejection-raises-{type(e).__name__}:config-eps", f"{e} log_w={lw} u={us}"))
        finally:
            _config.general.eps = _eps0
    r = ratio(lw)
    want = [i for i in range(n) if mp.mpf(us[i]) < r[i]]
    # decisions within 4 ulp of the boundary are not decidable in float64
    fuzzy = {i for i in range(n) if r[i] > 0 and abs(mp.mpf(us[i]) - r[i]) <= 8 * mp.mpf(2) ** -52 * r[i]}
    got = [int(i) for i in idx]
    if sorted(set(got)) != got:
        errs.append(("rejection-indices-not-unique-ascending", f"{got} log_w={lw}"))
    if {i for i in got} - fuzzy != set(want) - fuzzy:
        errs.append((f"rejection-keep-iff-u-below-w-over-max:{tag}", f"kept {got} expected {want} log_w={lw} u={us}"))
    if post.tobytes() != ns[idx].tobytes() or post.dtype != ns.dtype:
        errs.append(("rejection-samples-not-rows-identified-by-indices", f"log_w={lw}"))
    if ns.tobytes() != before.tobytes():
        errs.append(("rejection-modifies-input", f"log_w={lw}"))
    return tuple(got)


def check_multinomial(lw, nreq, method, errs):
    import mpmath as mp
    from nessai.posterior import draw_posterior_samples
    from nessai.utils.stats import effective_sample_size

    n = len(lw)
    ns = nested(n)
    with np.errstate(all="ignore"):
        ess = float(effective_sample_size(np.array(lw)))
    exp_n = int(ess) if nreq is None else nreq
    answers = [
        np.zeros(exp_n, dtype=int),
        np.full(exp_n, n - 1, dtype=int),
        np.arange(exp_n, dtype=int) % n,
        (np.arange(exp_n, dtype=int)[::-1] * 3) % n,
    ]
    mp.mp.dps = 40
    w = [mp.exp(mp.mpf(v) - mp.mpf(max(lw))) if math.isfinite(v) else mp.mpf(0) for v in lw]
    tot = sum(w)
    p_ref = [float(x / tot) for x in w]
    # the weights are formed as exp(log_w - logsumexp): relative error ~ eps * max|log_w|
    ptol = 1e-12 + 64 * 2.0 ** -52 * max(abs(v) for v in lw if math.isfinite(v))
    nout = 0
    for ai, ans in enumerate(answers):
        rec = []
        with rng.patch_choice(lambda a, k, name: ans.copy(), callers={"draw_posterior_samples"}, record=rec):
            try:
                with np.errstate(all="ignore"):
                    _lw = np.array(lw, dtype=float)
                    _lw0, _ns0 = _lw.tobytes(), ns.tobytes()
                    post, idx = draw_posterior_samples(ns, log_w=_lw, n=nreq, method=method, return_indices=True)
                    if _lw.tobytes() != _lw0 or ns.tobytes() != _ns0:
                        errs.append(("multinomial-modifies-its-input-arrays", f"log_w={lw} -> {_lw} method={method}"))
            except Exception as e:
                errs.append((f"multinomial-raises-{type(e).__name__}", f"{e} log_w={lw} n={nreq}"))
                return 0
        nout += 1
        if len(rec) != 1:
            errs.append(("multinomial-choice-called-once", f"{len(rec)} calls log_w={lw}"))
            continue
        _, _, args, kwargs = rec[0]
        a = args[0] if args else kwargs.get("a")
        size = kwargs.get("size", args[1] if len(args) > 1 else None)
        replace = kwargs.get("replace", args[2] if len(args) > 2 else True)
        p = kwargs.get("p", args[3] if len(args) > 3 else None)
        pop_ok = (isinstance(a, (int, np.integer)) and a == n) or (hasattr(a, "__len__") and len(a) == n)
        if not pop_ok:
            errs.append(("multinomial-population", f"{a} for {n} samples"))
        if size is None or int(np.prod(size)) != exp_n:
            errs.append(("multinomial-number-of-draws", f"size={size} expected {exp_n} (ess={ess}) log_w={lw} n={nreq}"))
        if not replace:
            errs.append(("multinomial-without-replacement", f"log_w={lw}"))
        if p is None or len(p) != n or any(abs(float(a_) - b_) > ptol for a_, b_ in zip(p, p_ref)):
            errs.append(("multinomial-probabilities-proportional-to-weights", f"p={p} expected {p_ref} log_w={lw}"))
        else:
            try:
                np.random.RandomState(0).choice(n, size=3, p=np.asarray(p), replace=True)
            except Exception as e:
                errs.append(("multinomial-probabilities-rejected-by-numpy", f"{e} log_w={lw}"))
        if len(post) != exp_n or [int(i) for i in idx] != ans.tolist():
            errs.append(("multinomial-answer-not-passed-through", f"idx={idx} ans={ans} log_w={lw}"))
        elif post.tobytes() != ns[ans].tobytes():
            errs.append(("multinomial-samples-not-rows-identified-by-indices", f"log_w={lw}"))
    return nout


def check_ess(lw, errs):
    from nessai.utils.stats import effective_sample_size
    from nessai.evidence import _INSIntegralState

    n = len(lw)
    npos = sum(1 for v in lw if math.isfinite(v))
    vals = []
    for c in SHIFTS:
        with np.errstate(all="ignore"):
            e = float(effective_sample_size(np.array(lw) + c))
        vals.append(e)
        if not (1 - 1e-9 <= e <= npos + 1e-9 * n):
            errs.append(("ess-outside-1..n", f"{e} log_w={lw} shift={c}"))
    if max(vals) - min(vals) > 1e-6 * max(vals):
        errs.append(("ess-not-shift-invariant", f"{vals} log_w={lw}"))
    # the integral-state flavour used by the importance sampler
    st = _INSIntegralState()
    smp = np.zeros(n, dtype=[("logL", "f8"), ("logW", "f8")])
    smp["logW"] = lw
    with np.errstate(all="ignore"):
        st.update_evidence(smp)
        e2 = float(st.effective_n_posterior_samples)
    if abs(e2 - vals[0]) > 1e-9 * vals[0]:
        errs.append(("ess-integral-state-differs", f"{e2} vs {vals[0]} log_w={lw}"))


def worker(item):
    K, vecs, joint = item
    errs = []
    n_eval = 0
    outcomes = set()
    for lw in vecs:
        n = len(lw)
        for c in SHIFTS:
            lws = tuple(v + c for v in lw)
            lat = u_lattice(K if c == 0.0 else 8)
            for u in lat:
                got = check_rejection(lws, [u] * n, errs, "constant-u")
                n_eval += 1
                outcomes.add((lw, got))
            if c == 0.0 and n >= 2:
                # one deviant variate: decisions must depend on u_i only
                for i in range(n):
                    for u in (0.0, 0.3, 1.0 - 2.0 ** -53):
                        us = [0.6] * n
                        us[i] = u
                        got = check_rejection(lws, us, errs, "one-deviant-u")
                        n_eval += 1
                        outcomes.add((lw, got))
            if joint and c == 0.0 and n <= 3:
                for us in itertools.product([(k + 0.5) / 8 for k in range(8)] + [0.0], repeat=n):
                    got = check_rejection(lws, list(us), errs, "joint-lattice")
                    n_eval += 1
                    outcomes.add((lw, got))
            if c in (0.0, 1e5):
                for nreq in (None, 0, 1, 3, 10):
                    for method in ("multinomial_resampling", "importance_sampling"):
                        n_eval += check_multinomial(lws, nreq, method, errs)
        check_ess(lw, errs)
    seen, viol = set(), []
    for k, d in errs:
        if k not in seen:
            seen.add(k)
            viol.append((k, d, {"case": d}))
    return {"counts": {"evaluations": n_eval}, "violations": viol, "outcomes": len(outcomes)}


def long_cases(errs):
    """Size clauses on long structured vectors (deterministic properties only)."""
    from nessai.posterior import draw_posterior_samples
    from nessai.utils.stats import effective_sample_size

    n_eval = 0
    for N in (1000, 100000):
        x = np.arange(N, dtype=float)
        for name, lw in (("flat", np.zeros(N)), ("geometric", -0.01 * x), ("one-hot", np.where(x == 17, 0.0, -np.inf)), ("two-level", np.where(x < N // 2, -1e5, 0.0))):
            ns = nested(N)
            with np.errstate(all="ignore"):
                ess = float(effective_sample_size(lw))
            if not (1 - 1e-9 <= ess <= N * (1 + 1e-9)):
                errs.append(("ess-outside-1..n", f"{ess} long-{name}-{N}"))
            for nreq in (None, 0, 7, 2 * N if N == 1000 else 5):
                np.random.seed(1)
                with np.errstate(all="ignore"):
                    _lw0 = lw.tobytes()
                    post, idx = draw_posterior_samples(ns, log_w=lw, n=nreq, method="multinomial_resampling", return_indices=True)
                    if lw.tobytes() != _lw0:
                        errs.append(("multinomial-modifies-its-input-arrays", f"long-{name}-{N} n={nreq}"))
                        lw = np.frombuffer(_lw0, dtype=lw.dtype).copy()
                n_eval += 1
                exp_n = int(ess) if nreq is None else nreq
                if len(post) != exp_n or len(idx) != exp_n:
                    errs.append(("multinomial-number-of-draws", f"{len(post)} vs {exp_n} long-{name}-{N} n={nreq}"))
                if post.tobytes() != ns[idx].tobytes():
                    errs.append(("multinomial-samples-not-rows-identified-by-indices", f"long-{name}-{N}"))
                if np.any(~np.isfinite(lw[idx])):
                    errs.append(("multinomial-selected-zero-weight-sample", f"long-{name}-{N}"))
            np.random.seed(2)
            with np.errstate(all="ignore"):
                _lw0 = lw.tobytes()
                post, idx = draw_posterior_samples(ns, log_w=lw, method="rejection_sampling", return_indices=True)
                if lw.tobytes() != _lw0:
                    errs.append(("rejection-modifies-its-input-arrays", f"long-{name}-{N}"))
                    lw = np.frombuffer(_lw0, dtype=lw.dtype).copy()
            n_eval += 1
            if post.tobytes() != ns[idx].tobytes():
                errs.append(("rejection-samples-not-rows-identified-by-indices", f"long-{name}-{N}"))
            if not np.all(np.isin(np.flatnonzero(lw == lw.max()), idx)):
                errs.append(("rejection-maximum-weight-sample-not-kept", f"long-{name}-{N}"))
            if np.any(~np.isfinite(lw[idx])):
                errs.append(("rejection-kept-zero-weight-sample", f"long-{name}-{N}"))
    # weights not given but derived from the number of live points (int or per-iteration array): the
    # default number of multinomial draws is still int(ESS) of the weights that are used, and the
    # rejection step uses the same weights
    from nessai.posterior import compute_weights

    for N in (12, 60, 300):
        ns = nested(N)
        ns["logL"] = np.sort(np.concatenate([np.arange(N - N // 3) * 0.25, np.full(N // 3, (N - N // 3) * 0.25)]))  # with a plateau
        for nl in (1, 5, N, np.concatenate([np.full(N - 5, 5.0), np.arange(5, 0, -1.0)])):
            for expectation in ("logt", "t"):
                with np.errstate(all="ignore"):
                    _, lw_own = compute_weights(ns["logL"], nl if np.isscalar(nl) else nl.copy(), expectation=expectation)
                ess_own = kish_float(np.asarray(lw_own, dtype=float))
                for method in ("multinomial_resampling", "importance_sampling"):
                    np.random.seed(5)
                    try:
                        with np.errstate(all="ignore"):
                            post, idx = draw_posterior_samples(ns, nlive=nl if np.isscalar(nl) else nl.copy(), method=method, expectation=expectation, return_indices=True)
                    except TypeError:
                        post, idx = draw_posterior_samples(ns, nlive=nl if np.isscalar(nl) else nl.copy(), method=method, return_indices=True) if expectation == "logt" else (None, None)
                    except Exception as e:
                        errs.append((f"nlive-path-raises-{type(e).__name__}", f"{e} N={N} nlive={nl if np.isscalar(nl) else 'schedule'} {method}"))
                        continue
                    if post is None:
                        continue
                    n_eval += 1
                    if len(post) != int(ess_own) or post.tobytes() != ns[idx].tobytes():
                        errs.append(("nlive-path:multinomial-number-of-draws-is-not-int-ESS-of-the-weights-used", f"{len(post)} vs int({ess_own}) N={N} nlive={nl if np.isscalar(nl) else 'schedule'} {method} {expectation}"))
    return n_eval


def kish_float(lw):
    m = np.max(lw[np.isfinite(lw)])
    w = np.exp(lw - m)
    w = np.where(np.isfinite(w), w, 0.0)
    return float(w.sum() ** 2 / np.sum(w * w))


def run(ctx):
    maxlen = 4 if ctx.quick else 5
    K = 32 if ctx.quick else 64
    vecs = [w for ell in range(1, maxlen + 1) for w in itertools.product(LETTERS, repeat=ell) if any(math.isfinite(v) for v in w)]
    step = max(1, len(vecs) // 64)
    items = [(K, vecs[i : i + step], True) for i in range(0, len(vecs), step)]
    outcomes = 0
    for it, res in ctx.pmap(worker, items):
        ctx.merge(res)
        outcomes += res["outcomes"]
    errs = []
    n_long = long_cases(errs)
    ctx.count("evaluations", n_long)
    for k, d in errs:
        ctx.violation(k, d, {"case": d})
    # invalid method is rejected
    from nessai.posterior import draw_posterior_samples

    try:
        draw_posterior_samples(nested(3), log_w=np.zeros(3), method="nope")
        ctx.violation("unknown-method-accepted", "method='nope' did not raise", {})
    except ValueError:
        pass
    ctx.set("distinct_nontrivial", outcomes)
    ctx.set("rule", "all log-weight vectors of length 1..maxlen over the letters with >=1 finite entry x 4 constant shifts; rejection: every lattice value of the uniform variate (constant vectors, one-deviant vectors, full joint lattice 9^n for n<=3); multinomial: n in {None,0,1,3,10} x 2 method names x 4 scripted answers of choice. Non-trivial/distinct: distinct (weight vector, kept-index set) outcomes")
    ctx.set("bounds", dict(letters=[repr(v) for v in LETTERS], max_len=maxlen, K=K, shifts=SHIFTS, u_extra=[repr(u) for u in U_EXTRA]))
    ctx.set("exhaustive", True)
    ctx.sample({"log_w": [-1.0, 0.0, -50.0], "u": [0.359375] * 3, "kept": [0, 1]})
    ctx.assume(
        "numpy.random.choice(a, size, p, replace=True) draws with frequencies p (trusted base); the check decides that nessai hands it the right (a, size, p) and returns its answer unchanged",
        "decisions with |u - w/max w| within 8 ulp are not decided (float64 resolution)",
    )


def replay(ctx, data):
    return [f"stored case: {data.get('case')}"]
