"""C09 - proposal pools follow the prior inside the contour and never leave the prior.

(1) Distribution clause decided exactly (E6): for each proposal configuration the
candidates and their densities are captured at the backward-pass seam and the
acceptance variate at the populate call site is replaced by the constant
(k+1/2)/K for every k; the pool must be exactly the candidates with
u < w/max w (w = prior/q recomputed by the oracle; running maximum when
accumulating), in order, truncated to the requested size.
(2) Structural clauses on every population of real runs (bounds, logP, logL,
size, indices handed out once, latent contour) + the likelihood-call guard.
(3) Radial latent samplers as inverse-CDF maps on a lattice of variates.
(4) Rejection / analytic proposals and the INS initial population.
"""
import itertools
import shutil

import numpy as np
from scipy import stats
from scipy.special import logsumexp

from mc import rng, runs
from mc.tinymodels import make

LEVEL = "exploration"


def pop_lattice(quick):
    out = []
    lps = [("truncated_gaussian", True), ("truncated_gaussian", False), ("gaussian", False), ("uniform_nball", True), ("uniform_nball", False), ("uniform_nsphere", True), ("flow", False), ("uniform", False)]
    for (lp, cv) in lps:
        for acc in (False, True):
            for trunc in (False, True):
                for rp in (None, "rescaletobounds", "logit"):
                    for sizes in ((10, 3), (10, 10), (10, 50), (1, 1)):
                        for model in ("G2", "G2ramp"):
                            dev = (acc, trunc, rp is not None, sizes != (10, 10), model != "G2")
                            if quick and sum(dev) > 1:
                                continue
                            if not quick and sum(dev) > 2:
                                continue
                            out.append(dict(latent_prior=lp, constant_volume_mode=cv, accumulate_weights=acc, truncate_log_q=trunc, reparameterisations=rp, poolsize=sizes[0], drawsize=sizes[1], model=model))
    extra = [dict(fixed_radius=1.5), dict(min_radius=3.0), dict(max_radius=0.5), dict(compute_radius_with_all=True), dict(fuzz=1.3, expansion_fraction=None)]
    for e in extra:
        out.append(dict(latent_prior="truncated_gaussian", constant_volume_mode=False, accumulate_weights=False, truncate_log_q=False, reparameterisations=None, poolsize=10, drawsize=10, model="G2", extra=e))
    for cls in ("augmentedflowproposal", "clusteringflowproposal"):
        out.append(dict(latent_prior="truncated_gaussian", constant_volume_mode=True, accumulate_weights=False, truncate_log_q=False, reparameterisations=None, poolsize=10, drawsize=10, model="G2", cls=cls))
    return out


def u_vec(n, k, K):
    """Variate for candidate i in run k: a lattice shift of a low-discrepancy sequence, so that
    every candidate meets K equally spaced values over the K runs while each run still accepts
    about the expected fraction (a constant vector makes the accumulate mode crawl)."""
    return ((np.arange(int(n)) * 0.6180339887498949) + (k + 0.5) / K) % 1.0


def label_of(cfg):
    return ",".join(f"{k}={v}" for k, v in sorted(cfg.items(), key=lambda kv: kv[0]) if v not in (False, None) or k in ("reparameterisations",))


def build_proposal(cfg, out, trained=True):
    import torch
    from nessai.proposal.utils import get_flow_proposal_class

    torch.manual_seed(5)
    np.random.seed(5)
    model = make(cfg["model"])
    cls = get_flow_proposal_class(cfg.get("cls"))
    kw = dict(
        output=out, poolsize=cfg["poolsize"], drawsize=cfg["drawsize"], plot=False, latent_prior=cfg["latent_prior"],
        constant_volume_mode=cfg["constant_volume_mode"], accumulate_weights=cfg["accumulate_weights"], truncate_log_q=cfg["truncate_log_q"],
        reparameterisations=cfg["reparameterisations"], flow_config=dict(runs.FLOW_TINY, n_neurons=8), training_config=dict(runs.TRAIN_TINY),
    )
    kw.update(cfg.get("extra", {}))
    prop = cls(model, **kw)
    prop.initialise()
    live = model.new_point(60)
    live["logP"] = model.log_prior(live)
    live["logL"] = model.log_likelihood(live)
    live = np.sort(live, order="logL")
    if trained:
        prop.train(live, plot=False)
    else:
        prop.training_data = live.copy()
        prop.check_state(live)
    return model, prop, live


def pop_worker(item):
    import torch

    cfg, K = item
    label = label_of(cfg)
    errs = []
    n_runs = 0
    outcomes = set()
    out = runs.scratch("c09")
    runs.reset_globals()
    try:
        for trained in (True, False):
            if not trained and (cfg["truncate_log_q"] or cfg.get("cls") or cfg["accumulate_weights"]):
                # an untrained flow (zero running variance in its batch norm) gives one dominant weight;
                # the accumulate mode then only ends through its documented max_samples escape (1e6 proposals)
                continue
            try:
                model, prop, live = build_proposal(cfg, out, trained)
            except Exception as e:
                return dict(label=label, errs=[], rejected=f"{type(e).__name__}: {str(e)[:80]}", n=0, outcomes=0)
            N = cfg["poolsize"]
            tag = f"{label}|{'trained' if trained else 'untrained'}"
            o_bp, o_cw = prop.backward_pass, prop.compute_weights
            for k in range(K):
                u = (k + 0.5) / K
                batches = []
                latent = []

                def bp(z, *a, **kk):
                    r = o_bp(z, *a, **kk)
                    batches.append(dict(x=r[0].copy(), log_q=np.array(r[1], copy=True)))
                    return r

                def cw(x, log_q, *a, **kk):
                    r = o_cw(x, log_q, *a, **kk)
                    for b in reversed(batches):
                        if "log_w" not in b:
                            b["x_used"] = x.copy()
                            b["log_q_used"] = np.array(log_q, copy=True)
                            b["log_w"] = np.array(r if not isinstance(r, tuple) else r[0], copy=True)
                            break
                    return r

                prop.backward_pass, prop.compute_weights = bp, cw
                np.random.seed(100)
                torch.manual_seed(100)
                draws = [0]

                def answer(shape, name, _k=k):
                    draws[0] += 1
                    return u_vec(shape[0], _k, K)

                try:
                    with rng.patch_rand(answer, callers={"populate"}), np.errstate(all="ignore"):
                        cap = [0]
                        o_dl = prop.draw_latent_prior

                        def dl(n_):
                            cap[0] += 1
                            if cap[0] > 5000:
                                raise RuntimeError("population does not terminate (5000 latent draws)")
                            z_ = o_dl(n_)
                            latent.append(np.sqrt(np.sum(np.asarray(z_) ** 2, axis=1)).max() if len(z_) else 0.0)
                            return z_

                        prop.draw_latent_prior = dl
                        prop.populate(live[0], N=N, plot=False)
                except Exception as e:
                    errs.append((f"populate-raises-{type(e).__name__}:{tag}", f"{e} (u={u})"))
                    continue
                finally:
                    prop.backward_pass, prop.compute_weights = o_bp, o_cw
                    prop.__dict__.pop("draw_latent_prior", None)
                n_runs += 1
                used = [b for b in batches if "log_w" in b]
                # oracle: recompute the weights and replay the acceptance rule
                # (rows are compared on the sampled parameters: logP is filled in afterwards)
                fields = [f for f in np.atleast_1d(prop.x).dtype.names if f not in ("logP", "logL", "it")]

                def rb(a):
                    a = np.atleast_1d(a)
                    cols = [np.ascontiguousarray(a[f]).view('i8') for f in fields]
                    return [tuple(int(c[i]) for c in cols) for i in range(len(a))]

                pool = []
                ok = True
                if not cfg["accumulate_weights"]:
                    n_acc = 0
                    for b in used:
                        x_, lq = b["x_used"], b["log_q_used"]
                        with np.errstate(all="ignore"):
                            lw = oracle_log_w(model, prop, x_, lq)
                        if not np.allclose(lw, b["log_w"], rtol=1e-9, atol=1e-9, equal_nan=True):
                            errs.append((f"weights-are-not-prior-over-proposal-density:{tag}", f"{lw[:3]} vs {b['log_w'][:3]}"))
                            ok = False
                            break
                        uv = u_vec(len(lw), k, K)
                        with np.errstate(all="ignore"):
                            acc = np.exp(lw - np.nanmax(lw)) > uv
                        # decisions within rounding of the boundary are not decided
                        if np.any(np.abs(np.exp(lw - np.nanmax(lw)) - uv) < 1e-12):
                            ok = None
                        pool += rb(x_[acc])
                        n_acc += int(acc.sum())
                        if n_acc >= N:
                            break
                    expected = pool[:N]
                else:
                    lw_all = np.concatenate([oracle_log_w(model, prop, b["x_used"], b["log_q_used"]) for b in used]) if used else np.empty(0)
                    x_all = np.concatenate([b["x_used"] for b in used]) if used else None
                    c = np.nanmax(lw_all) if len(lw_all) else -np.inf
                    with np.errstate(all="ignore"):
                        acc = np.exp(lw_all - c) > u_vec(len(lw_all), k, K)
                    expected = rb(x_all[acc])[:N] if x_all is not None else []
                got = rb(np.atleast_1d(prop.x))
                outcomes.add((len(used), len(got)))
                if ok is None:
                    continue
                if ok and got != expected:
                    errs.append((f"pool-is-not-the-candidates-with-u-below-w-over-max-w:{tag}", f"u={u}: pool of {len(got)} vs expected {len(expected)} from {len(used)} batches; first difference at {next((i for i, (a, b_) in enumerate(zip(got, expected)) if a != b_), min(len(got), len(expected)))}"))
                if len(prop.samples) != N:
                    errs.append((f"pool-size:{tag}", f"{len(prop.samples)} vs {N} (u={u})"))
                if cfg["latent_prior"] in ("truncated_gaussian", "uniform_nball", "uniform_nsphere") and latent:
                    if max(latent) > prop.r * prop.fuzz * (1 + 1e-9):
                        errs.append((f"latent-draw-outside-contour:{tag}", f"radius {max(latent)!r} > r*fuzz {prop.r * prop.fuzz!r}"))
                s = prop.samples
                if not np.all(model.in_bounds(s)) or not np.all(np.isfinite(s["logP"])):
                    errs.append((f"pool-point-outside-prior:{tag}", ""))
    finally:
        shutil.rmtree(out, ignore_errors=True)
    seen, viol = set(), []
    for k_, d in errs:
        if k_ not in seen:
            seen.add(k_)
            viol.append((k_, d, {"mode": "pop", "cfg": cfg}))
    return dict(label=label, errs=viol, rejected=None, n=n_runs, outcomes=len(outcomes))


def oracle_log_w(model, prop, x, log_q):
    """log prior(x) - log q(x) with the prior recomputed from the model."""
    lp = np.asarray(model.log_prior(x), dtype=float)
    extra = 0.0
    rp = prop._reparameterisation
    if any(getattr(r, "has_prior", False) for r in rp.values()) or hasattr(prop, "augmented_prior"):
        # auxiliary parameters (radii, augment dimensions) carry their own documented prior
        extra = prop.log_prior(x) - prop.model.batch_evaluate_log_prior(x)
    return lp + extra - np.asarray(log_q, dtype=float)


# ---------------------------------------------------------------------------------
# (2) real runs


def real_worker(cfg):
    return runs.run_standard_case(cfg, want=("c09",))


def real_ins_worker(cfg):
    return runs.run_ins_case(cfg, want=("c03",))


# ---------------------------------------------------------------------------------
# (3) radial samplers as inverse-CDF maps


def radial_checks(K, errs):
    from nessai.utils.sampling import draw_truncated_gaussian, draw_nsphere, NDimensionalTruncatedGaussian

    n = 0
    us = np.array([(k + 0.5) / K for k in range(K)] + [0.0, 1.0 - 2.0 ** -53])
    for dims in (1, 2, 3, 5):
        for r in (0.3, 1.0, 2.5, 8.0):
            for fuzz in (1.0, 1.3):
                lim = r * fuzz
                umax = stats.chi.cdf(lim, df=dims)
                # truncated Gaussian (function): np.random.uniform(0, u_max, N)
                with _patch_uniform(lambda lo, hi, size: lo + (hi - lo) * us[: size if np.ndim(size) == 0 else size[0]] if (np.ndim(size) == 0 or len(size) == 1) else None, {"draw_truncated_gaussian"}):
                    np.random.seed(1)
                    z = draw_truncated_gaussian(dims, r, N=len(us), fuzz=fuzz)
                rad = np.sqrt(np.sum(z ** 2, axis=1))
                ref = stats.chi.ppf(us * umax, df=dims)
                n += 1
                if np.any(rad > lim * (1 + 1e-12)):
                    errs.append(("truncated-gaussian-radius-exceeds-r*fuzz", f"dims={dims} r={r} fuzz={fuzz}: {rad.max()!r}"))
                if np.any(np.abs(rad - ref) > 1e-9 * (1 + ref)):
                    errs.append(("truncated-gaussian-radius-is-not-the-inverse-cdf", f"dims={dims} r={r} fuzz={fuzz}"))
                # class version: u_max * np.random.rand(N)
                dist = NDimensionalTruncatedGaussian(dims, r, fuzz=fuzz)
                with rng.patch_rand(lambda shape, name: us[: shape[0]].copy() if len(shape) == 1 else None, callers={"sample"}):
                    np.random.seed(1)
                    z = dist.sample(len(us))
                rad = np.sqrt(np.sum(z ** 2, axis=1))
                n += 1
                if np.any(rad > lim * (1 + 1e-12)):
                    errs.append(("NDimensionalTruncatedGaussian-radius-exceeds-r*fuzz", f"dims={dims} r={r} fuzz={fuzz}: {rad.max()!r}"))
                if np.any(np.abs(rad - ref) > 1e-9 * (1 + ref)):
                    errs.append(("NDimensionalTruncatedGaussian-radius-is-not-the-inverse-cdf", f"dims={dims} r={r} fuzz={fuzz}"))
                # uniform n-ball: R = u^(1/dims) * r * fuzz
                with _patch_uniform(lambda lo, hi, size: (lo + (hi - lo) * us[: size[0]]).reshape(size) if np.ndim(size) and len(size) == 2 and size[1] == 1 else None, {"draw_nsphere"}):
                    np.random.seed(1)
                    z = draw_nsphere(dims, r=r, N=len(us), fuzz=fuzz)
                rad = np.sqrt(np.sum(z ** 2, axis=1))
                n += 1
                if np.any(rad > lim * (1 + 1e-12)):
                    errs.append(("nball-radius-exceeds-r*fuzz", f"dims={dims} r={r} fuzz={fuzz}: {rad.max()!r}"))
                if np.any(np.abs(rad - lim * us ** (1.0 / dims)) > 1e-9 * (1 + lim)):
                    errs.append(("nball-radius-is-not-the-inverse-cdf", f"dims={dims} r={r} fuzz={fuzz}"))
    return n


import contextlib  # noqa: E402
import sys  # noqa: E402


@contextlib.contextmanager
def _patch_uniform(answer, callers):
    orig = np.random.uniform

    def uniform(low=0.0, high=1.0, size=None):
        name = sys._getframe(1).f_code.co_name
        if name in callers:
            out = answer(low, high, size)
            if out is not None:
                return out
        return orig(low, high, size)

    np.random.uniform = uniform
    try:
        yield
    finally:
        np.random.uniform = orig


# ---------------------------------------------------------------------------------
# (4) rejection / analytic proposals


def rejection_checks(K, errs):
    from nessai.proposal.rejection import RejectionProposal
    from nessai.proposal.analytic import AnalyticProposal
    from nessai.model import Model
    from mc.tinymodels import GaussRamp

    class RampUniformDraw(GaussRamp):
        """ramp prior, candidates drawn uniformly in the box (default new_point)"""

        new_point = Model.new_point
        new_point_log_prob = Model.new_point_log_prob

    n = 0
    for mname, model_f in (("G2", lambda: make("G2")), ("ramp-uniform-draw", lambda: RampUniformDraw(2)), ("G2ramp-exact", lambda: make("G2ramp"))):
        for N in (1, 7, 40):
            for k in range(K):
                u = (k + 0.5) / K
                model = model_f()
                prop = RejectionProposal(model, poolsize=N)
                prop.initialise()
                np.random.seed(9)
                cand = {}
                o_dp = prop.draw_proposal

                def dp(N=None, _o=o_dp):
                    x = _o(N=N)
                    cand["x"] = x.copy()
                    return x

                prop.draw_proposal = dp
                with rng.patch_rand(lambda shape, name, _u=u: np.full(shape, _u), callers={"populate"}), np.errstate(all="ignore"):
                    try:
                        prop.populate(N=N)
                    except Exception as e:
                        errs.append((f"rejection-populate-raises-{type(e).__name__}:{mname}", f"{e} N={N} u={u}"))
                        continue
                n += 1
                x = cand["x"]
                with np.errstate(all="ignore"):
                    lw = np.asarray(model.log_prior(x), dtype=float) - np.asarray(model.new_point_log_prob(x), dtype=float)
                    acc = np.exp(lw - np.nanmax(lw)) >= u
                expected = x[acc]
                got = prop.samples
                if len(got) > N:
                    errs.append((f"rejection-pool-larger-than-requested:{mname}", f"{len(got)} > {N}"))
                if np.any(np.abs(np.exp(lw - np.nanmax(lw)) - u) < 1e-12):
                    continue
                def _rb(a):
                    return [tuple(float(a[nm][i]) for nm in model.names) for i in range(len(a))]

                if _rb(got) != _rb(expected):
                    errs.append((f"rejection-pool-is-not-the-candidates-with-u-below-w-over-max-w:{mname}", f"N={N} u={u}: {len(got)} vs {len(expected)}"))
                if len(got) and (not np.all(model.in_bounds(got)) or not np.all(np.isfinite(got["logP"]))):
                    errs.append((f"rejection-pool-point-outside-prior:{mname}", ""))
                if sorted(prop.indices) != list(range(len(got))):
                    errs.append((f"rejection-indices-not-a-permutation:{mname}", ""))
    for N in (1, 7):
        model = make("G2ramp")
        prop = AnalyticProposal(model, poolsize=N)
        prop.initialise()
        np.random.seed(3)
        seen = []
        for _ in range(3 * N):
            p = prop.draw(None)
            seen.append(p.tobytes())
        n += 1
        if len(set(seen)) != len(seen):
            errs.append(("analytic-pool-point-handed-out-twice", f"N={N}"))
    return n


def misc_worker(K):
    errs = []
    n = radial_checks(K, errs)
    n += rejection_checks(max(8, K // 4), errs)
    seen, viol = set(), []
    for k_, d in errs:
        if k_ not in seen:
            seen.add(k_)
            viol.append((k_, d, {"mode": "misc"}))
    return dict(label="radial+rejection", errs=viol, rejected=None, n=n, outcomes=0)


def _dispatch(x):
    kind, item = x
    if kind == "pop":
        return pop_worker(item)
    if kind == "misc":
        return misc_worker(item)
    if kind == "real":
        r = real_worker(item)
    else:
        r = real_ins_worker(item)
    key = r["key"]
    viol = [(f"{c}@real-run:{key}", f"{c}: {d} (config {item})", {"mode": kind, "cfg": item}) for c, d in runs.sweep_errs(item, r["errs"])[:2]]
    return dict(label=f"real:{key}", errs=viol, rejected=r.get("rejected_up_front"), n=r.get("populations", r.get("iterations", 0)), outcomes=0, populations=r.get("populations", 0), draws=r.get("pool_draws", 0))


def run(ctx):
    K = 16 if ctx.quick else 64
    items = [("pop", (c, K)) for c in pop_lattice(ctx.quick)]
    items.append(("misc", K))
    real = runs.standard_lattice(ctx.seed, ctx.quick)
    real += [
        {"kind": "std", "model": "G2", "seed": ctx.seed, "kwargs": {"flow_proposal_class": "augmentedflowproposal"}, "resume": "none"},
        {"kind": "std", "model": "GW5", "seed": ctx.seed, "kwargs": {"flow_proposal_class": "gwflowproposal"}, "resume": "none"},
        {"kind": "std", "model": "G2ramp", "seed": ctx.seed, "kwargs": {"poolsize": 50, "drawsize": 7, "truncate_log_q": True}, "resume": "every"},
    ]
    real += runs.option_sweep("std", ctx.seed)
    items += [("real", c) for c in real]
    items += [("ins", c) for c in runs.ins_lattice(ctx.seed, True, resume_subsets=False) + runs.option_sweep("ins", ctx.seed)]
    # the gate behind "lies within the prior bounds": Model.in_bounds must be the exact closed-interval
    # test by name (shared with C10, which owns the evaluation interface)
    from checks import c10

    gate = c10.default_methods_worker(4)
    ctx.count("evaluations", gate["counts"]["evaluations"])
    for k_, d_, data_ in gate["violations"]:
        if k_.startswith("in_bounds"):
            ctx.violation(f"gate:{k_}", d_, {"mode": "gate"})
    labels = set()
    rejected = []
    for (kind, item), res in ctx.pmap(_dispatch, items):
        ctx.count("evaluations", max(1, res["n"]))
        labels.add(res["label"])
        ctx.count("populations_monitored_in_real_runs", res.get("populations", 0))
        ctx.count("pool_draws_monitored", res.get("draws", 0))
        if res.get("rejected"):
            rejected.append(f"{res['label']}: {res['rejected']}")
        for v in res["errs"]:
            ctx.violation(*v)
    ctx.set("distinct_nontrivial", len(labels))
    ctx.set("rejected_up_front", rejected)
    ctx.set("rule", "population lattice: latent prior x constant volume x accumulate_weights x truncate_log_q x reparameterisation x (poolsize, drawsize) x model (uniform / ramp prior), deviation-bounded (quick: <=1, thorough: <=2 departures from the default), radius options, augmented and clustering proposals, trained and untrained flows; each populated for every lattice value (k+1/2)/K of the acceptance variate. Real runs: the standard and INS lattices and every valid single option value of the C20 option alphabet, with the pool monitor and the likelihood-call guard. Radial samplers: dims {1,2,3,5} x r x fuzz on the variate lattice. Rejection/analytic proposals on three models. Distinct/non-trivial: distinct configurations")
    ctx.set("bounds", dict(K=K))
    ctx.set("exhaustive", True)
    ctx.sample({"population_config": label_of(pop_lattice(True)[3]), "variates": f"(k+1/2)/{K} for k < {K}"})
    ctx.assume(
        "together with C08 (q is the density of the generated point) 'kept iff u < (prior/q)/max' for every lattice value of u is 'prior restricted to the contour'",
        "decisions within 1e-12 of the acceptance boundary are not decided",
        "pool points are mapped forwards again in float32: 1e-3 relative slack on the latent radius",
    )


def replay(ctx, data):
    if data.get("mode") == "pop":
        return [v[1] for v in pop_worker((data["cfg"], 16))["errs"]]
    if data.get("mode") == "gate":
        from checks import c10

        return [d_ for k_, d_, _ in c10.default_methods_worker(4)["violations"] if k_.startswith("in_bounds")]
    if data.get("mode") == "misc":
        return [v[1] for v in misc_worker(16)["errs"]]
    return [v[1] for v in _dispatch((data["mode"], data["cfg"]))["errs"]]
