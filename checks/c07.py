"""C07 - reparameterisations are exact bijections with consistent Jacobians and priors.

Every registered reparameterisation name (general and gravitational-wave sets)
and each option value is configured through the real
`FlowProposal.set_rescaling` / `GWFlowProposal` on small box models; each is a
small state machine (update with three fixed batches / reset) explored by BFS;
in every state the forward map (with every edge-detection answer and both
compute_radius values) and the inverse map are evaluated on a point lattice
that hugs the bounds.  RNG seams (split inversion, auxiliary radii) are
enumerated.
"""
import itertools
import math
import shutil

import numpy as np

from mc import explore, rng, runs

LEVEL = "model_checking"

EPS = np.finfo(float).eps

BOUNDS = {
    "unit": [0.0, 1.0],
    "sym": [-1.0, 1.0],
    "2pi": [0.0, 2 * np.pi],
    "pmpi": [-np.pi, np.pi],
    "halfpi": [-np.pi / 2, np.pi / 2],
    "0pi": [0.0, np.pi],
    "wide": [-5.0, 5.0],
    "log": [1e-3, 1e3],
    "off": [-1e5, 3e5],
    "dist": [100.0, 5000.0],
}


def box_model(names, bounds, priors=None):
    from nessai.model import Model

    priors = priors or {}

    class Box(Model):
        def __init__(self):
            self.names = list(names)
            self.bounds = {n: list(b) for n, b in zip(names, bounds)}

        def log_prior(self, x):
            with np.errstate(divide="ignore", invalid="ignore"):
                lp = np.log(self.in_bounds(x), dtype="float64")
                for n, kind in priors.items():
                    if kind == "cos":
                        lp = lp + np.log(np.cos(x[n]))
                    elif kind == "sin":
                        lp = lp + np.log(np.sin(x[n]))
                    elif kind == "pow2":
                        lp = lp + 2 * np.log(x[n])
            return np.where(self.in_bounds(x), lp, -np.inf)

        def log_likelihood(self, x):
            return np.zeros(x.size)

    return Box()


def configs(quick):
    """(label, proposal kind, names, bounds keys, priors, reparameterisations)"""
    out = []

    def one(label, rp, b="wide", b2="sym", extra=None):
        out.append((label, "flow", ["x0", "x1"], [b, b2], {}, rp, extra or {}))

    general_bounds = ["wide", "unit", "off", "log"] if not quick else ["wide", "off", "unit"]
    for b in general_bounds:
        one(f"default[{b}]", {"x0": "default"}, b)
        one(f"rescaletobounds[{b}]", {"rescaletobounds": {"parameters": ["x0", "x1"]}}, b)
        one(f"rescaletobounds-noupdate[{b}]", {"x0": {"reparameterisation": "rescaletobounds", "update_bounds": False}}, b)
        one(f"rescale_bounds01[{b}]", {"x0": {"reparameterisation": "rescaletobounds", "rescale_bounds": [0.0, 1.0]}}, b)
        one(f"rescale_bounds-2,5[{b}]", {"x0": {"reparameterisation": "rescaletobounds", "rescale_bounds": [-2.0, 5.0], "update_bounds": False}}, b)
        one(f"offset[{b}]", {"x0": "offset"}, b)
        one(f"inversion-split[{b}]", {"x0": "inversion"}, b)
        one(f"inversion-duplicate[{b}]", {"x0": "inversion-duplicate"}, b)
        for side in ("lower", "upper", "both"):
            one(f"inversion-fixed-{side}[{b}]", {"x0": {"reparameterisation": "rescaletobounds", "boundary_inversion": True, "inversion_type": "split", "detect_edges": True, "detect_edges_kwargs": {"allowed_bounds": [side] if side != "both" else ["lower", "upper"]}}}, b)
        # one multi-parameter block with per-parameter heterogeneity: inversion on a subset only,
        # non-default target interval for the others, list / dict spellings
        for itype in ("split", "duplicate"):
            one(f"block-partial-inversion-{itype}-rb01[{b}]", {"rescaletobounds": {"parameters": ["x0", "x1"], "boundary_inversion": ["x0"], "inversion_type": itype, "detect_edges": True, "rescale_bounds": [0.0, 1.0]}}, b)
            one(f"block-partial-inversion-{itype}-x1-rb-2,5[{b}]", {"rescaletobounds": {"parameters": ["x0", "x1"], "boundary_inversion": {"x1": itype}, "detect_edges": True, "rescale_bounds": {"x0": [-2.0, 5.0], "x1": [-1.0, 1.0]}}}, b)
        one(f"block-partial-inversion-default-rb[{b}]", {"rescaletobounds": {"parameters": ["x0", "x1"], "boundary_inversion": ["x1"], "detect_edges": True}}, b)
        one(f"block-mixed-rescale-bounds[{b}]", {"rescaletobounds": {"parameters": ["x0", "x1"], "rescale_bounds": {"x0": [0.0, 1.0], "x1": [-3.0, -1.0]}, "update_bounds": False}}, b)
        one(f"logit[{b}]", {"x0": "logit"}, b)
        one(f"log-rescale[{b}]", {"x0": "log-rescale"}, b)
        one(f"scale[{b}]", {"x0": {"reparameterisation": "scale", "scale": 2.5}}, b)
        one(f"scaleandshift[{b}]", {"x0": {"reparameterisation": "scaleandshift", "scale": 3.0, "shift": 0.5}}, b)
        one(f"rescale-estimate[{b}]", {"x0": {"reparameterisation": "rescale", "estimate_scale": True}}, b)
        one(f"zscore[{b}]", {"zscore": {"parameters": ["x0", "x1"]}}, b)
        one(f"null[{b}]", {"x0": "null"}, b)
        one(f"uniform-prime-prior[{b}]", {"x0": {"reparameterisation": "rescaletobounds", "prior": "uniform", "update_bounds": False}, "x1": {"reparameterisation": "rescaletobounds", "prior": "uniform", "update_bounds": False}}, b)
        one(f"uniform-prime-prior-update[{b}]", {"rescaletobounds": {"parameters": ["x0", "x1"], "prior": "uniform"}}, b)
        if b in ("wide", "log"):
            # log is singular at 0: only strictly positive prior intervals
            one(f"pre-log[{'log' if b == 'wide' else 'dist'}]", {"x0": {"reparameterisation": "rescaletobounds", "pre_rescaling": "log", "update_bounds": False}}, "log" if b == "wide" else "dist")
        one(f"post-logit[{b}]", {"x0": {"reparameterisation": "rescaletobounds", "post_rescaling": "logit", "update_bounds": False}}, b)
    for b in ("2pi", "pmpi", "0pi"):
        one(f"angle[{b}]", {"x0": "angle"}, b)
        one(f"periodic[{b}]", {"x0": "periodic"}, b)
        one(f"angle-radial[{b}]", {"angle": {"parameters": ["x0", "x1"]}}, b, "unit")
    # uniform prime prior on angles that do not cover the full circle / do not start at zero
    for b, sc in (("sym", 1.0), ("halfpi", 1.0), ("0pi", 1.0), ("2pi", 1.0), ("unit", 2.0), ("sym", 0.5), ("pmpi", 1.0)):
        # (the other parameter gets a prime prior too, otherwise the proposal does not use any)
        one(f"angle-uniform-prime-prior[{b},scale={sc}]", {"x0": {"reparameterisation": "angle", "prior": "uniform", "scale": sc}, "x1": {"reparameterisation": "rescaletobounds", "prior": "uniform", "update_bounds": False}}, b)
    for b in ("0pi", "halfpi", "unit"):
        one(f"to-cartesian-uniform-prime-prior[{b}]", {"x0": {"reparameterisation": "to-cartesian", "prior": "uniform"}, "x1": {"reparameterisation": "rescaletobounds", "prior": "uniform", "update_bounds": False}}, b)
    one("angle-2pi", {"x0": "angle-2pi"}, "2pi")
    one("angle-pi", {"x0": "angle-pi"}, "0pi")
    one("angle-sine", {"x0": "angle-sine"}, "0pi")
    one("angle-cosine", {"x0": "angle-cosine"}, "halfpi")
    for mode in ("split", "duplicate", "half"):
        one(f"to-cartesian-{mode}", {"x0": {"reparameterisation": "to-cartesian", "mode": mode}}, "0pi")
        # bounds on which an inner rescaling step degenerates to the identity
        one(f"to-cartesian-{mode}[unit]", {"x0": {"reparameterisation": "to-cartesian", "mode": mode}}, "unit")
        one(f"to-cartesian-{mode}[wide]", {"x0": {"reparameterisation": "to-cartesian", "mode": mode}}, "wide")
    for conv in ("ra-dec", "az-zen"):
        b2 = "halfpi" if conv == "ra-dec" else "0pi"
        out.append((f"angle-pair-{conv}", "flow", ["x0", "x1"], ["2pi", b2], {}, {"angle-pair": {"parameters": ["x0", "x1"], "convention": conv}}, {}))
        out.append((f"angle-pair-{conv}-isotropic", "flow", ["x0", "x1"], ["2pi", b2], {"x1": "cos" if conv == "ra-dec" else "sin"}, {"angle-pair": {"parameters": ["x0", "x1"], "convention": conv, "prior": "isotropic"}}, {}))
        out.append((f"angle-pair-{conv}-radial", "flow", ["x0", "x1", "x2"], ["2pi", b2, "unit"], {}, {"angle-pair": {"parameters": ["x0", "x1", "x2"], "convention": conv}}, {}))
    # combinations the proposal accepts / rejects
    # RescaleToBounds option product: every assignment with <= 2 departures from the defaults
    # (quick) / the full product (thorough), single entry and two-parameter block
    out.extend(rtb_product(3 if quick else None))
    one("mixed", {"x0": "inversion", "x1": "logit"})
    one("fallback-zscore", None, "wide", "sym", {"fallback_reparameterisation": "zscore"})
    one("fallback-default", None, "wide", "sym", {"fallback_reparameterisation": "default"})
    one("reverse-order", {"x0": "offset", "x1": "scale" and {"reparameterisation": "scale", "scale": 2.0}}, "off", "sym", {"reverse_reparameterisations": True})
    # gravitational-wave defaults through GWFlowProposal
    out.append(("gw-defaults", "gw", ["chirp_mass", "mass_ratio", "ra", "dec", "psi"], [[20.0, 40.0], [0.125, 1.0], "2pi", "halfpi", "0pi"], {"dec": "cos"}, None, {}))
    out.append(("gw-spins-time", "gw", ["a_1", "tilt_1", "phi_12", "geocent_time", "theta_jn"], ["unit", "0pi", "2pi", [1e9, 1e9 + 0.2], "0pi"], {"tilt_1": "sin", "theta_jn": "sin"}, None, {}))
    out.append(("gw-az-zen-phase", "gw", ["azimuth", "zenith", "phase", "iota"], ["2pi", "0pi", "2pi", "0pi"], {"zenith": "sin", "iota": "sin"}, None, {}))
    out.append(("gw-distance-powerlaw", "gw", ["luminosity_distance", "mass_ratio"], ["dist", [0.125, 1.0]], {"luminosity_distance": "pow2"}, {"luminosity_distance": {"reparameterisation": "distance", "prior": "power-law", "converter_kwargs": {"power": 2}}}, {}))
    out.append(("gw-distance-noprior", "gw", ["luminosity_distance", "mass_ratio"], ["dist", [0.125, 1.0]], {}, {"luminosity_distance": {"reparameterisation": "distance"}}, {}))
    out.append(("gw-delta-phase", "gw", ["psi", "theta_jn", "phase"], ["0pi", "0pi", "2pi"], {"theta_jn": "sin"}, {"psi": "null", "theta_jn": "null", "phase": {"reparameterisation": "delta-phase"}}, {"reverse_reparameterisations": True}))
    # offset together with boundary inversion (what the GW time/distance defaults combine)
    for b in ("off", "dist"):
        out.append((f"offset+inversion[{b}]", "flow", ["x0", "x1"], [b, "sym"], {}, {"x0": {"reparameterisation": "rescaletobounds", "offset": True, "boundary_inversion": True, "detect_edges": True, "inversion_type": "duplicate"}}, {}))
        out.append((f"offset+inversion-split[{b}]", "flow", ["x0", "x1"], [b, "sym"], {}, {"x0": {"reparameterisation": "rescaletobounds", "offset": True, "boundary_inversion": True, "detect_edges": True, "inversion_type": "split"}}, {}))
    return out


RTB_OPTIONS = dict(
    rescale_bounds=[None, [0.0, 1.0], [-2.0, 5.0]],
    boundary_inversion=[None, True, ["x0"]],
    inversion_type=["split", "duplicate"],
    detect_edges=[False, True],
    offset=[False, True],
    update_bounds=[True, False],
    prior=[None, "uniform"],
    post_rescaling=[None, "logit", "exp"],
)


def rtb_product(max_deviations=None):
    """RescaleToBounds: the product of its option values (or every assignment with at most
    `max_deviations` departures from the defaults), as a single-parameter entry and as one
    two-parameter block, on two prior intervals.  Labels start with 'rtb['."""
    import itertools

    names = list(RTB_OPTIONS)
    out = []
    for vals in itertools.product(*[RTB_OPTIONS[k] for k in names]):
        if max_deviations is not None and sum(v != RTB_OPTIONS[k][0] for k, v in zip(names, vals)) > max_deviations:
            continue
        d = {k: v for k, v in zip(names, vals) if (v is not None and v is not False) or k == "update_bounds"}
        if d.get("boundary_inversion") is None and (d.get("inversion_type") == "duplicate" or d.get("detect_edges")):
            continue
        for form in ("single", "block"):
            if form == "single":
                if d.get("boundary_inversion") == ["x0"]:
                    continue
                rp = {"x0": dict(d, reparameterisation="rescaletobounds")}
            else:
                rp = {"rescaletobounds": dict(d, parameters=["x0", "x1"])}
            for b in ("wide", "off"):
                label = "rtb[" + form + "," + b + "," + ",".join(f"{k}={v}" for k, v in d.items()) + "]"
                out.append((label, "flow", ["x0", "x1"], [b, "sym"], {}, rp, {}))
    return out


def lattice_1d(lo, hi, interior_only=False):
    r = hi - lo
    inner = [lo + r * f for f in (0.07, 0.31, 0.5, 0.69, 0.93)]
    if interior_only:
        return inner
    near = []
    for d in (1e-12, 1e-9, 1e-6):
        near += [lo + d * r, hi - d * r]
    return [lo, np.nextafter(lo, hi), hi, np.nextafter(hi, lo)] + near + inner


def regular_intervals(model, prop):
    """Per parameter, the interval on which the configured map is a bijection: the prior
    interval, narrowed to the current data bounds for folded (boundary-inversion) parameters
    (outside them the fold is not injective and nessai never maps such points forwards), and
    kept away from r = 0 for explicit radial parameters."""
    iv = {n: [float(model.bounds[n][0]), float(model.bounds[n][1])] for n in model.names}
    if prop is None:
        return iv
    for r in prop._reparameterisation.values():
        inv = getattr(r, "boundary_inversion", False)
        if inv:
            for p in r.parameters:
                if p in inv and p in iv:
                    with np.errstate(all="ignore"):
                        lo = float(np.atleast_1d(r.pre_rescaling_inv(np.array([r.bounds[p][0] + r.offsets[p]]))[0])[0])
                        hi = float(np.atleast_1d(r.pre_rescaling_inv(np.array([r.bounds[p][1] + r.offsets[p]]))[0])[0])
                    lo, hi = min(lo, hi), max(lo, hi)
                    iv[p] = [max(iv[p][0], lo), min(iv[p][1], hi)]
        if type(r).__name__ in ("Angle", "ToCartesian", "AnglePair") and not getattr(r, "chi", None):
            rad = r.parameters[-1]
            if rad in iv:
                iv[rad][0] = iv[rad][0] + 1e-6 * (iv[rad][1] - iv[rad][0])
    return iv


def make_points(model, interior_only=False, cap=4000, prop=None):
    from nessai.livepoint import numpy_array_to_live_points

    iv = regular_intervals(model, prop)
    axes = [lattice_1d(*iv[n], interior_only=interior_only) for n in model.names]
    if len(axes) > 3 or np.prod([len(a) for a in axes]) > cap:
        # vary one parameter over its full lattice while the others take three interior values
        pts = []
        mids = [[a[len(a) // 2], a[-1], a[-5]] for a in axes]
        for i, a in enumerate(axes):
            for v in a:
                for k in range(3):
                    p = [m[k] for m in mids]
                    p[i] = v
                    pts.append(p)
        arr = np.array(pts)
    else:
        arr = np.array(list(itertools.product(*axes)))
    x = numpy_array_to_live_points(arr, model.names)
    x["logP"] = np.arange(len(x)) * 0.5
    x["logL"] = -np.arange(len(x)) * 0.25
    x["it"] = np.arange(len(x)) % 7
    # any further registered non-sampling field carries its own recognisable values
    for j_, f_ in enumerate(f for f in x.dtype.names if f not in model.names and f not in ("logP", "logL", "it")):
        x[f_] = np.arange(len(x)) * 0.125 + 10.0 * (j_ + 1)
    return x


BATCHES = ("interior", "hug-lower", "hug-upper")

# combinations nessai is expected to refuse when the proposal is configured
EXPECTED_REJECTED = set()


def batch(model, kind, n=40):
    from nessai.livepoint import numpy_array_to_live_points

    r = np.random.RandomState({"interior": 1, "hug-lower": 2, "hug-upper": 3}[kind])
    u = r.rand(n, model.dims)
    if kind == "hug-lower":
        u = u ** 4 * 0.5
        u[0] = 0.0
    elif kind == "hug-upper":
        u = 1 - (u ** 4) * 0.5
        u[0] = 1.0
    else:
        u = 0.2 + 0.6 * u
    lo, hi = model.lower_bounds, model.upper_bounds
    x = numpy_array_to_live_points(lo + (hi - lo) * u, model.names)
    x["logP"] = 0.0
    x["logL"] = r.rand(n)
    return x


def build(cfg):
    from nessai.proposal.flowproposal import FlowProposal
    from nessai.gw.proposal import GWFlowProposal

    label, kind, names, bkeys, priors, rp, extra = cfg
    bounds = [BOUNDS[b] if isinstance(b, str) else b for b in bkeys]
    model = box_model(names, bounds, priors)
    cls = GWFlowProposal if kind == "gw" else FlowProposal
    out = runs.scratch("c07")
    prop = cls(model, poolsize=10, output=out, plot=False, reparameterisations=rp, **extra)
    return model, prop, out


def state_key(prop):
    d = []
    for name, r in prop._reparameterisation.items():
        for k in ("bounds", "_edges", "scale", "shift", "offsets", "prime_prior_bounds"):
            v = getattr(r, k, None)
            if isinstance(v, dict):
                d.append((name, k, tuple(sorted((str(a), repr(np.round(np.asarray(b, dtype=float), 12).tolist()) if b is not None and not isinstance(b, (str, bool)) else repr(b)) for a, b in v.items()))))
            elif v is not None:
                d.append((name, k, repr(v)))
    return tuple(d)


def has_inversion(prop):
    return any(getattr(r, "boundary_inversion", False) for r in prop._reparameterisation.values())


def chi_reparams(prop):
    return [r for r in prop._reparameterisation.values() if getattr(r, "chi", None)]


def unit_coords(model, x):
    lo, hi = model.lower_bounds, model.upper_bounds
    a = np.stack([x[n] for n in model.names], axis=1)
    return (a - lo) / (hi - lo)


def check_state(model, prop, label, errs, quick):
    """Evaluate every clause in the current state of the reparameterisations."""
    n_eval = 0
    pts = make_points(model, prop=prop)
    u = unit_coords(model, pts)
    with np.errstate(divide="ignore"):
        kappa = np.max(np.maximum(1.0 / np.maximum(u, 1e-300), 1.0 / np.maximum(1 - u, 1e-300)), axis=1)
    rng_r = np.ptp(np.stack([model.lower_bounds, model.upper_bounds]), axis=0)
    tests = [None, "lower", "upper", False] if has_inversion(prop) else [None]
    chis = chi_reparams(prop)
    radii = [1e-6, 1.0, 5.0] if chis else [None]
    for test, cr, rad in itertools.product(tests, (False, True), radii):
        for r in chis:
            r.chi.rvs = (lambda size=None, _v=rad: np.full(size, _v))
        tag = f"test={test},compute_radius={cr}" + (f",radius={rad}" if rad else "")
        for rr in prop._reparameterisation.values():
            if hasattr(rr, "reset_inversion"):
                rr.reset_inversion()
        try:
            with np.errstate(all="ignore"):
                inp = pts.copy()
                xp, lj = prop.rescale(inp, test=test, compute_radius=cr)
                xin = xp.copy()
                xr, lji = prop.inverse_rescale(xin)
            # the sampler hands its live points to these maps: the arguments must come back untouched
            if inp.tobytes() != pts.tobytes():
                bad_f = [f for f in pts.dtype.names if inp[f].tobytes() != pts[f].tobytes()]
                errs.append((f"rescale-modifies-the-array-it-is-given:{label}", f"fields {bad_f} ({tag})"))
            if xin.tobytes() != xp.tobytes():
                bad_f = [f for f in xp.dtype.names if xin[f].tobytes() != xp[f].tobytes()]
                errs.append((f"inverse_rescale-modifies-the-array-it-is-given:{label}", f"fields {bad_f} ({tag})"))
        except Exception as e:
            errs.append((f"raises-{type(e).__name__}:{label}", f"{e} ({tag})"))
            continue
        n_eval += 1
        n = len(pts)
        ratio = len(xr) // n if n else 1
        if len(xr) % n or ratio < 1:
            errs.append((f"output-size:{label}", f"{len(xr)} for {n} ({tag})"))
            continue
        # where the map itself is singular (logit/log at a bound, identified end of a periodic
        # parameter, poles) the forward image is not finite or the point is excluded
        finite = np.ones(n * ratio, dtype=bool)
        for f in xp.dtype.names:
            if f not in ("logP", "logL", "it"):
                finite &= np.isfinite(xp[f])
        finite &= np.isfinite(lj)
        for blk in range(ratio):
            sl = slice(blk * n, (blk + 1) * n)
            ok = finite[sl]
            for j, nm in enumerate(model.names):
                d = np.abs(xr[nm][sl] - pts[nm])
                period = None
                if any(k in label for k in ("angle", "periodic", "cartesian", "gw")):
                    period = rng_r[j]
                bad = ok & ~(d <= 1e-9 * rng_r[j])
                if period is not None:
                    # the two ends of a periodic parameter are identified
                    bad &= ~(np.abs(d - period) <= 1e-9 * rng_r[j])
                    at_edge = (np.min(u, axis=1) < 1e-5) | (np.max(u, axis=1) > 1 - 1e-5)
                    bad &= ~at_edge
                if np.any(bad):
                    i = int(np.flatnonzero(bad)[0])
                    errs.append((f"round-trip:{label}", f"{nm}: {pts[nm][i]!r} -> {xr[nm][sl][i]!r} (block {blk}, {tag})"))
                    break
            for f in [f for f in pts.dtype.names if f not in model.names]:
                if f not in xr.dtype.names or f not in xp.dtype.names or xr[f][sl].tobytes() != pts[f].tobytes() or xp[f][sl].tobytes() != pts[f].tobytes():
                    errs.append((f"non-sampling-field-changed:{label}", f"{f} ({tag})"))
                    break
            a, b = lj[sl], lji[sl]
            tol = 1e-10 + 64 * EPS * kappa * (1 + np.abs(a))
            okj = ok & np.isfinite(b)
            bad = okj & ~(np.abs(a + b) <= tol)
            if period is None and np.any(bad):
                i = int(np.flatnonzero(bad)[0])
                errs.append((f"forward-and-inverse-log-jacobians-not-opposite:{label}", f"{a[i]!r} vs {b[i]!r} at u={u[i]} ({tag})"))
            elif period is not None:
                interior = (np.min(u, axis=1) > 1e-5) & (np.max(u, axis=1) < 1 - 1e-5)
                bad &= interior
                if np.any(bad):
                    i = int(np.flatnonzero(bad)[0])
                    errs.append((f"forward-and-inverse-log-jacobians-not-opposite:{label}", f"{a[i]!r} vs {b[i]!r} at u={u[i]} ({tag})"))
    # finite-difference Jacobian on interior points for dimension-preserving deterministic maps
    if not chis and len(prop.parameters) == len(prop.prime_parameters) == model.dims:
        n_eval += fd_check(model, prop, label, errs)
    # prime prior
    if getattr(prop, "use_x_prime_prior", False) or all(getattr(r, "has_prime_prior", False) for r in prop._reparameterisation.values()):
        n_eval += prime_prior_check(model, prop, label, errs)
    return n_eval


def fd_check(model, prop, label, errs):
    pts = make_points(model, interior_only=True, cap=200, prop=prop)
    d = model.dims
    n = len(pts)
    rng_r = model.upper_bounds - model.lower_bounds

    def fwd(x):
        for rr in prop._reparameterisation.values():
            if hasattr(rr, "reset_inversion"):
                rr.reset_inversion()
        with rng.patch_choice(lambda a, k, name: np.arange((a[1] if len(a) > 1 else k.get("size", 0))), callers=None):
            xp, lj = prop.rescale(x.copy(), test="lower")
        arr = np.stack([xp[p] for p in prop.prime_parameters], axis=1)
        return arr[: len(x)], lj[: len(x)]

    try:
        with np.errstate(all="ignore"):
            base, lj = fwd(pts)
            J = np.zeros((n, d, d))
            for k, nm in enumerate(model.names):
                h = 1e-6 * rng_r[k]
                xp_, xm_ = pts.copy(), pts.copy()
                xp_[nm] += h
                xm_[nm] -= h
                fp, _ = fwd(xp_)
                fm, _ = fwd(xm_)
                J[:, :, k] = (fp - fm) / (2 * h)
    except Exception as e:
        errs.append((f"raises-{type(e).__name__}:{label}", f"{e} (finite differences)"))
        return 1
    sign, logdet = np.linalg.slogdet(J)
    ok = np.isfinite(logdet) & np.isfinite(lj)
    if ok.sum() >= 2:
        diff = (lj - logdet)[ok]
        if np.ptp(diff) > 1e-4 * (1 + np.abs(diff).max()):
            i = int(np.argmax(np.abs(diff - np.median(diff))))
            errs.append((f"log-jacobian-differs-from-true-jacobian-by-a-non-constant:{label}", f"log_J - log|det J_fd| ranges over {np.ptp(diff)!r} (e.g. {diff[i]!r} vs median {np.median(diff)!r})"))
    return 1


def prime_prior_check(model, prop, label, errs):
    pts = make_points(model, interior_only=True, cap=200, prop=prop)
    try:
        with np.errstate(all="ignore"):
            for rr in prop._reparameterisation.values():
                if hasattr(rr, "reset_inversion"):
                    rr.reset_inversion()
            xp, lj = prop.rescale(pts.copy(), test=False)
            lpp = np.zeros(len(xp))
            for r in prop._reparameterisation.values():
                if getattr(r, "has_prime_prior", False):
                    lpp = lpp + r.x_prime_log_prior(xp)
                else:
                    return 0
            lp = model.log_prior(pts)
    except Exception as e:
        errs.append((f"raises-{type(e).__name__}:{label}", f"{e} (prime prior)"))
        return 1
    n = len(pts)
    lpp, lj = lpp[:n], lj[:n]
    # same support: points of the reparameterised space that map outside the prior box must have
    # zero prime prior (probe just outside the image of each prior bound)
    try:
        with np.errstate(all="ignore"):
            from nessai.livepoint import numpy_array_to_live_points

            mid = 0.5 * (model.lower_bounds + model.upper_bounds)
            angular = {p_ for r in prop._reparameterisation.values() if type(r).__name__ in ("Angle", "AnglePair", "ToCartesian") for p_ in r.parameters}
            for j, nm in enumerate(model.names):
                if nm in angular:
                    continue  # a periodic image of an outside point is an inside point of the same prime coordinates
                for end in (0, 1):
                    for delta in (1e-6, 1e-3, 0.1):
                        width = model.upper_bounds[j] - model.lower_bounds[j]
                        p0 = mid.copy()
                        p0[j] = model.lower_bounds[j] - delta * width if end == 0 else model.upper_bounds[j] + delta * width
                        xo = numpy_array_to_live_points(np.array([p0, p0]), model.names)
                        for rr in prop._reparameterisation.values():
                            if hasattr(rr, "reset_inversion"):
                                rr.reset_inversion()
                        xpo, _ = prop.rescale(xo.copy(), test=False)
                        val = np.zeros(len(xpo))
                        for r in prop._reparameterisation.values():
                            val = val + r.x_prime_log_prior(xpo)
                        if np.any(np.isfinite(val[:2])):
                            errs.append((f"prime-prior-support-differs:{label}", f"{nm} = {p0[j]!r} lies outside the prior box [{model.lower_bounds[j]}, {model.upper_bounds[j]}] but its image has prime log-prior {val[0]!r}"))
                            raise StopIteration
    except StopIteration:
        return 1
    except Exception as e:
        errs.append((f"raises-{type(e).__name__}:{label}", f"{e} (prime prior support)"))
        return 1
    fin_a, fin_b = np.isfinite(lpp), np.isfinite(lp)
    if np.any(fin_a != fin_b):
        errs.append((f"prime-prior-support-differs:{label}", f"{int(np.sum(fin_a != fin_b))} points"))
        return 1
    diff = (lpp - (lp - lj))[fin_a]
    if len(diff) >= 2 and np.ptp(diff) > 1e-8 * (1 + np.abs(diff).max()):
        errs.append((f"prime-prior-is-not-prior-over-jacobian-up-to-a-constant:{label}", f"difference ranges over {np.ptp(diff)!r}"))
    return 1


def split_subsets_check(model, prop, label, errs):
    """Every answer of np.random.choice in split inversion for a 4-point batch."""
    if not has_inversion(prop):
        return 0
    pts = make_points(model, interior_only=True, cap=50, prop=prop)[:4]
    n_eval = 0
    rng_r = model.upper_bounds - model.lower_bounds
    for subset in itertools.combinations(range(4), 2):
        for rr in prop._reparameterisation.values():
            if hasattr(rr, "reset_inversion"):
                rr.reset_inversion()
        try:
            with rng.patch_choice(lambda a, k, name: np.array(subset), callers={"_apply_inversion", "_rescale_angle"}):
                xp, lj = prop.rescale(pts.copy(), test="lower")
            xr, lji = prop.inverse_rescale(xp.copy())
        except Exception as e:
            errs.append((f"raises-{type(e).__name__}:{label}", f"{e} (split subset {subset})"))
            continue
        n_eval += 1
        for j, nm in enumerate(model.names):
            if np.any(np.abs(xr[nm][:4] - pts[nm]) > 1e-9 * rng_r[j]):
                errs.append((f"round-trip:{label}", f"{nm} with split subset {subset}"))
        if np.any(np.abs(lj[:4] + lji[:4]) > 1e-9):
            errs.append((f"forward-and-inverse-log-jacobians-not-opposite:{label}", f"split subset {subset}"))
    return n_eval


EXTRA_FIELD_LABELS = ("default[wide]", "rescaletobounds[wide]", "inversion-split[wide]", "logit[wide]", "angle[2pi]", "zscore[wide]", "gw-defaults", "to-cartesian-split", "mixed", "null[wide]")


def worker(item):
    """Every configuration once; a few of them again while extra non-sampling fields are registered
    (as the importance sampler does globally) and carry their own values."""
    from nessai import livepoint as _lp

    res = _worker(item)
    cfg = item[0]
    if cfg[0] in EXTRA_FIELD_LABELS:
        _lp.add_extra_parameters_to_live_points(["vx_w", "vx_q"], [0.5, -1.0])
        try:
            cfg2 = (cfg[0] + "+extra-fields",) + tuple(cfg[1:])
            r2 = _worker((cfg2, min(item[1], 1), item[2]))
        finally:
            _lp.reset_extra_live_points_parameters()
        res["errs"] = res["errs"] + r2["errs"]
        for k_ in ("states", "transitions", "evaluations"):
            res["stats"][k_] += r2["stats"][k_]
    return res


def _worker(item):
    cfg, depth, quick = item
    label = cfg[0]
    errs = []
    stats = dict(states=0, transitions=0, evaluations=0, rejected=False, maxdepth=0)
    out = None
    try:
        try:
            model, prop, out = build(cfg)
            prop.set_rescaling()
        except Exception as e:
            stats["rejected"] = f"{type(e).__name__}: {str(e)[:100]}"
            if label not in EXPECTED_REJECTED and not label.startswith("rtb["):
                errs.append((f"built-in-configuration-rejected:{label}", stats["rejected"]))
            return dict(label=label, errs=[(k, d, {"label": label}) for k, d in errs], stats=stats)
        try:
            prop.verify_rescaling()
        except Exception as e:
            # nessai's own invertibility test refuses a built-in reparameterisation: it is not a bijection
            stats["rejected"] = f"verify_rescaling: {type(e).__name__}: {str(e)[:100]}"
            if label.startswith("rtb[") and "boundary_inversion=" in label and "post_rescaling=logit" in label:
                # boundary inversion followed by a logit is refused by nessai's own check at
                # initialisation (the mirrored half is outside the logit's domain): not accepted
                return dict(label=label, errs=[], stats=stats)
            errs.append((f"fails-nessai's-own-invertibility-check:{label}", str(e)[:200]))
            return dict(label=label, errs=[(k, d, {"label": label}) for k, d in errs], stats=stats)
        seen = {}
        frontier = [()]
        seen[state_key(prop)] = ()
        events = [("update", b) for b in BATCHES] + [("reset",)]

        def replay(hist):
            prop._reparameterisation.reset()
            for ev in hist:
                if ev[0] == "update":
                    prop.check_state(batch(model, ev[1]))
                else:
                    prop._reparameterisation.reset()

        stats["evaluations"] += check_state(model, prop, label, errs, quick)
        stats["evaluations"] += split_subsets_check(model, prop, label, errs)
        stats["states"] = 1
        for d in range(depth):
            nxt = []
            for hist in frontier:
                for ev in events:
                    h2 = hist + (ev,)
                    try:
                        replay(h2)
                    except Exception as e:
                        errs.append((f"raises-{type(e).__name__}:{label}", f"{e} during history {h2}"))
                        continue
                    stats["transitions"] += 1
                    k = state_key(prop)
                    if k in seen:
                        continue
                    seen[k] = h2
                    nxt.append(h2)
                    stats["states"] += 1
                    stats["maxdepth"] = d + 1
                    n0 = len(errs)
                    stats["evaluations"] += check_state(model, prop, label, errs, quick)
                    for i in range(n0, len(errs)):
                        errs[i] = (errs[i][0], errs[i][1] + f" after history {h2}")
            frontier = nxt
            if not frontier:
                break
    finally:
        if out:
            shutil.rmtree(out, ignore_errors=True)
    seen_k, viol = set(), []
    for k, dd in errs:
        if k not in seen_k:
            seen_k.add(k)
            viol.append((k, dd, {"label": label}))
    return dict(label=label, errs=viol, stats=stats)


def run(ctx):
    cfgs = configs(ctx.quick)
    depth = 2 if ctx.quick else 3
    tot = dict(states=0, transitions=0, evaluations=0)
    rejected = []
    for item, res in ctx.pmap(worker, [(c, depth, ctx.quick) for c in cfgs]):
        for k in tot:
            tot[k] += res["stats"][k]
        if res["stats"]["rejected"]:
            rejected.append((res["label"], res["stats"]["rejected"]))
        for v in res["errs"]:
            ctx.violation(*v)
    ctx.set("states", tot["states"])
    ctx.set("transitions", tot["transitions"])
    ctx.set("traces_validated_against_impl", tot["transitions"])
    ctx.set("evaluations", tot["evaluations"])
    ctx.set("configurations", len(cfgs))
    ctx.set("rejected_up_front", [f"{a}: {b}" for a, b in rejected])
    ctx.set("max_depth", depth)
    ctx.set("exhaustive", True)
    ctx.set("bounds", dict(depth=depth, bounds=list(BOUNDS), batches=BATCHES, tests=[None, "lower", "upper", False], radii=[1e-6, 1, 5]))
    ctx.sample({"configuration": cfgs[6][0], "reparameterisations": str(cfgs[6][5]), "history": [["update", "hug-lower"], ["reset"]]})
    ctx.assume(
        "points where the map is singular are excluded exactly when the forward image is not finite; for periodic / angular maps the identified end points and the 1e-5 edge neighbourhood are excluded from the round trip",
        "log-Jacobian antisymmetry is required to 1e-10 + 64*eps*kappa(x), kappa = max(1/u, 1/(1-u)) of the unit coordinate (one ulp at a logit bound moves the log-Jacobian by ln 2)",
        "RescaleToBounds is additionally covered by the product of its option values (rescale_bounds x boundary_inversion {none, all, subset} x inversion type x detect_edges x offset x update_bounds x prime prior x post-rescaling; quick: every assignment with <= 3 departures from the defaults, thorough: the full product), as a single entry and as a two-parameter block; a combination refused at initialisation is outside the property (log/logit with bound updates is refused with a RuntimeError, boundary inversion followed by a logit by nessai's own invertibility test); any other refusal by that test is reported",
        "finite-difference Jacobian (relative step 1e-6) on interior lattice points for dimension-preserving maps without auxiliary radii; uniform-comoving-volume distance prior excluded (astropy absent, no tractable Jacobian)",
    )


def replay(ctx, data):
    cfg = [c for c in configs(False) if c[0] == data["label"]]
    if not cfg:
        return [f"unknown configuration {data['label']}"]
    return [v[1] for v in worker((cfg[0], 3, False))["errs"]]
