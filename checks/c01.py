"""C01 - live set evolves only by likelihood-constrained replacement.

Part A (model checking): explicit-state BFS over the real
`NestedSampler.populate_live_points` / `consume_sample` driven by a scripted
proposal.  States are rank-compressed live sets; transitions are all answer
words of the proposal (<= 2 rejected answers, then an accepted one) plus a
pickle/resume event; a list-based reference model runs in lock step.
Part B (conformance): the same oracle attached to every iteration of complete
real runs over a lattice of proposal configurations and resume histories.
"""
import itertools
import os
import pickle
import shutil
import tempfile

import numpy as np

from mc import explore, runs
from mc.monitors import StdMonitor

LEVEL = "model_checking"

NEG = float("-inf")


def tie_pattern(vals):
    d = sorted(set(vals))
    return tuple(d.index(v) for v in sorted(vals))


def positions(live):
    """Abstract positions for a new logL relative to the sorted live values."""
    d = sorted(set(live))
    out = [("below", d[0] - 1.0), ("eq0", d[0])]
    for j in range(len(d) - 1):
        out.append((f"gap{j}", (d[j] + d[j + 1]) / 2.0))
        out.append((f"eq{j + 1}", d[j + 1]))
    out.append(("above", d[-1] + 1.0))
    return out


def iteration_words(live, max_rej):
    pos = dict(positions(live))
    mn = min(live)
    rej = [
        ("R:-infP-above,pop", (NEG, pos["above"], True)),
        ("R:below,pop", (0.0, pos["below"], True)),
        ("R:eqmin,pop", (0.0, pos["eq0"], True)),
        ("R:-infP,empty", (NEG, pos["above"], False)),
        ("R:eqmin,empty", (0.0, pos["eq0"], False)),
        ("R:below,empty", (0.0, pos["below"], False)),
        ("R:nanL,pop", (0.0, float("nan"), True)),
        ("R:nanL,empty", (0.0, float("nan"), False)),
    ]
    acc = []
    for name, v in pos.items():
        if v > mn:
            acc.append((f"A:{name},pop", (0.0, v, True)))
            acc.append((f"A:{name},empty", (0.0, v, False)))
    for k in range(0, max_rej + 1):
        for rs in itertools.product(rej, repeat=k):
            for a in acc:
                names = tuple(r[0] for r in rs) + (a[0],)
                answers = [r[1] for r in rs] + [a[1]]
                yield names, answers


def init_words(nlive, rich):
    """Every weak ordering of nlive accepted values as a sequence, with at most one
    rejected candidate interleaved."""
    seqs = set()
    for seq in itertools.product(range(nlive), repeat=nlive):
        d = sorted(set(seq))
        seqs.add(tuple(d.index(v) for v in seq))
    rejects = [
        ("-infP,pop", (NEG, 5.0, True)),
        ("-infP,empty", (NEG, 5.0, False)),
        ("-infL,pop", (0.0, NEG, True)),
        ("-infL,empty", (0.0, NEG, False)),
        ("nanL,empty", (0.0, float("nan"), False)),
    ]
    for seq in sorted(seqs):
        for pops in ((True,) * nlive, (False,) * nlive, tuple(i % 2 == 0 for i in range(nlive))):
            base = [(0.0, float(v), p) for v, p in zip(seq, pops)]
            yield ("seq", seq, pops, None), base
            if not rich and pops != (True,) * nlive:
                continue
            for i in range(nlive + 1):
                if i == nlive:
                    continue  # nothing is drawn after the last accepted point
                for rn, r in rejects:
                    yield ("seq", seq, pops, (i, rn)), base[:i] + [r] + base[i:]


_TMP = None


def _tmp():
    global _TMP
    if _TMP is None or not os.path.isdir(_TMP):
        _TMP = tempfile.mkdtemp(prefix="nessai-verif-c01-")
    return _TMP


class Lockstep:
    """Real sampler + monitor + list model, advanced by scripted events."""

    def __init__(self, nlive):
        from nessai.samplers.nestedsampler import NestedSampler
        from nessai.livepoint import reset_extra_live_points_parameters
        from mc.scripted import ScriptModel, ScriptedProposal

        reset_extra_live_points_parameters()
        self.nlive = nlive
        self.ns = NestedSampler(
            ScriptModel(), nlive=nlive, output=_tmp(), uninformed_proposal=ScriptedProposal,
            maximum_uninformed=float("inf"), uninformed_acceptance_threshold=0.0,
            checkpointing=False, plot=False, seed=0,
        )
        self.ns.proposal = self.ns._uninformed_proposal
        self.ns.initialise_history()
        self.mon = StdMonitor()
        self.ref_live = None
        self.ref_dead = []
        self.errs = []

    def err(self, c, d=""):
        self.errs.append((c, str(d)[:300]))

    def _run(self, what, fn, answers):
        from mc.scripted import ScriptExhausted

        sp = self.ns._uninformed_proposal
        sp.script = list(answers)
        try:
            fn()
        except ScriptExhausted:
            self.err(f"{what}:asks-for-more-draws-than-the-word", answers)
            return False
        except Exception as e:
            self.err(f"{what}:raises-{type(e).__name__}", e)
            return False
        if sp.script:
            self.err(f"{what}:stops-before-consuming-the-word", f"{len(sp.script)} answers unused")
            return False
        return True

    def init(self, answers):
        ok = self._run("populate", self.ns.populate_live_points, answers)
        if not ok:
            return
        self.mon.after_populate(self.ns)
        good = [a[1] for a in answers if np.isfinite(a[0]) and np.isfinite(a[1])]
        self.ref_live = sorted(good)
        if list(self.ns.live_points["logL"]) != self.ref_live:
            self.err("populate:live-set-differs-from-model", (list(self.ns.live_points["logL"]), self.ref_live))

    def iterate(self, answers):
        pre = self.mon.before_consume(self.ns)
        ok = self._run("iteration", self.ns.consume_sample, answers)
        if not ok:
            return
        self.mon.after_consume(self.ns, pre)
        self.ref_dead.append(self.ref_live[0])
        self.ref_live = sorted(self.ref_live[1:] + [answers[-1][1]])
        if list(self.ns.live_points["logL"]) != self.ref_live:
            self.err("iteration:live-set-differs-from-model", (list(self.ns.live_points["logL"]), self.ref_live))
        if [float(p["logL"]) for p in self.ns.nested_samples] != self.ref_dead:
            self.err("iteration:discarded-sequence-differs-from-model")
        if self.ns.proposal.populated != answers[-1][2]:
            self.err("iteration:environment-flag-changed")

    def resume(self):
        from nessai.samplers.nestedsampler import NestedSampler
        from mc.scripted import ScriptModel

        ns = self.ns
        dig = runs.std_digest(ns)
        try:
            ns2 = pickle.loads(pickle.dumps(ns))
            ns2 = NestedSampler.resume_from_pickled_sampler(ns2, ScriptModel())
            ns2.initialise()
            ns2.check_resume()
        except Exception as e:
            self.err(f"resume:raises-{type(e).__name__}", e)
            return
        d2 = runs.std_digest(ns2)
        for k in dig:
            if dig[k] != d2[k]:
                self.err(f"resume:{k}-not-restored")
        if ns2.proposal is not ns2._uninformed_proposal:
            self.err("resume:proposal-switched")
        self.ns = ns2

    def finalise(self):
        pre = self.mon.before_finalise(self.ns)
        # update_state divides by nlive // 10 (nlive < 10 is outside the sampler's supported range);
        # it only records history/plots, so it is stubbed for the tiny live sets of part A
        self.ns.update_state = lambda force=False: None
        try:
            self.ns.finalise()
        except Exception as e:
            self.err(f"finalise:raises-{type(e).__name__}", e)
            return
        self.mon.after_finalise(self.ns, pre)

    def all_errs(self):
        return self.errs + self.mon.errs

    def canon(self):
        return (self.nlive, tie_pattern(self.ref_live), bool(self.ns.proposal.populated))


def build(nlive, hist):
    ls = Lockstep(nlive)
    for ev in hist:
        if ls.all_errs():
            break
        if ev[0] == "init":
            ls.init(ev[2])
        elif ev[0] == "it":
            ls.iterate(ev[2])
        elif ev[0] == "resume":
            ls.resume()
        elif ev[0] == "fin":
            ls.finalise()
    return ls


def vkey(ls, ev):
    c = ls.all_errs()[0][0]
    return f"{c}@{ev[0]}"


def expand(item):
    bi, (nlive, max_rej, with_resume), hists = item
    out = []
    for hist in hists:
        base = build(nlive, hist)
        live = list(base.ref_live)
        succs = []
        evs = [("it", names, answers) for names, answers in iteration_words(live, max_rej)]
        if with_resume and hist[-1][0] != "resume":
            evs.append(("resume",))
        evs.append(("fin",))
        for ev in evs:
            h2 = list(hist) + [ev]
            ls = build(nlive, h2)
            errs = ls.all_errs()
            if errs:
                viol = (vkey(ls, ev), f"{errs[0][0]}: {errs[0][1]} after history {[(e[0], e[1] if len(e) > 1 else None) for e in h2]}", {"nlive": nlive, "hist": h2})
                succs.append((ev, None, viol, None))
                continue
            if ev[0] == "fin":
                succs.append((ev, None, None, ("fin",)))
                continue
            idx = ls.ns.insertion_indices[-1] if (ev[0] == "it") else None
            succs.append((ev, ls.canon() + ((ev[0] == "resume"),), None, (ev[0], len(ev[2]) if ev[0] == "it" else 0, idx)))
        out.append(succs)
    return out


def part_a(ctx):
    nlives = (2, 3) if ctx.quick else (2, 3, 4, 5)
    max_rej = 2
    tot_s = tot_t = 0
    outcomes = set()
    depth_max = 0
    for nlive in nlives:
        roots = []
        n_init = 0
        init_items = list(init_words(nlive, rich=(nlive <= 3 or not ctx.quick)))
        for (i, res) in ctx.pmap(_init_worker, [(nlive, init_items[i::16]) for i in range(16)]):
            for key, hist, viol in res:
                n_init += 1
                if viol:
                    ctx.violation(*viol)
                else:
                    roots.append((key, hist))
        roots.sort(key=lambda kh: (str(kh[0]), len(kh[1][0][2])))
        depth = 3 if ctx.quick else 4
        r = explore.bfs(ctx, roots, expand, depth, chunk=1, extra=(nlive, max_rej, True))
        tot_s += r["states"]
        tot_t += r["transitions"] + n_init
        outcomes |= r["outcomes"]
        depth_max = max(depth_max, r["max_depth"] + 1)
        ctx.set(f"fixpoint_nlive{nlive}", bool(r["exhausted"]))
        if r["longest"]:
            ctx.sample({"nlive": nlive, "history": [(e[0], e[1] if len(e) > 1 else None) for e in r["longest"]]})
    ctx.set("states", tot_s)
    ctx.set("transitions", tot_t)
    ctx.set("traces_validated_against_impl", tot_t)
    ctx.set("max_depth", depth_max)
    ctx.set("distinct_outcomes", len(outcomes))
    ctx.set("bounds", dict(nlive=list(nlives), max_rejections_per_iteration=max_rej))


def _init_worker(item):
    nlive, words = item
    out = []
    for name, answers in words:
        hist = [("init", name, answers)]
        ls = build(nlive, hist)
        errs = ls.all_errs()
        if errs:
            out.append((None, hist, (f"{errs[0][0]}@init", f"{errs[0][0]}: {errs[0][1]} for initial draws {answers}", {"nlive": nlive, "hist": hist})))
        else:
            out.append((ls.canon() + (False,), hist, None))
    return out


# ----------------------------------------------------------------------------------
# Part B: conformance on real proposals


def part_b_worker(cfg):
    return runs.run_standard_case(cfg, want=("c01",))


def part_b(ctx):
    cfgs = runs.standard_lattice(ctx.seed, ctx.quick)
    # plus every valid single option value of the C20 alphabet (whether such a run completes is
    # C20's business; here only the monitor's clauses count)
    cfgs += runs.option_sweep("std", ctx.seed)
    n_it = 0
    pos = set()
    for cfg, res in ctx.pmap(part_b_worker, cfgs):
        n_it += res["iterations"]
        pos |= set(res.get("insert_positions", []))
        if cfg.get("sweep"):
            ctx.count("real_runs_from_the_option_sweep")
        for clause, detail in runs.sweep_errs(cfg, res["errs"])[:2]:
            ctx.violation(f"{clause}@real-run:{res['key']}", f"{clause}: {detail} in real run {cfg}", {"cfg": cfg})
        ctx.count("real_runs")
        if res.get("rejected_up_front"):
            ctx.count("real_runs_rejected_up_front")
        if res.get("resumes"):
            ctx.count("real_runs_with_resume")
    ctx.set("real_run_iterations_monitored", n_it)
    ctx.set("real_run_distinct_insertion_positions", len(pos))
    ctx.sample({"real_run_config": cfgs[1] if len(cfgs) > 1 else cfgs[0]})


def run(ctx):
    part_a(ctx)
    part_b(ctx)
    ctx.set("exhaustive", True)
    ctx.assume(
        "part A: order-isomorphic live sets have isomorphic futures for every C01 observable (only comparisons are applied to logL), so the rank-compressed state space is finite and explored to the stated depth / fixpoint",
        "part A: a NaN logL on a replacement draw is in the alphabet as an answer that must be rejected; nlive > 5 only through part B",
        "part B: real runs on tiny Gaussian models with tiny flows: the hand-written lattice plus every valid single option value of the C20 option alphabet; other configurations are not covered",
    )
    shutil.rmtree(_tmp(), ignore_errors=True)


def replay(ctx, data):
    if "hist" in data:
        hist = [tuple(e) for e in data["hist"]]
        hist = [(e[0], e[1], [tuple(a) for a in e[2]]) if len(e) > 2 else e for e in hist]
        ls = build(data["nlive"], hist)
        return [f"{c}: {d}" for c, d in ls.all_errs()]
    res = runs.run_standard_case(data["cfg"], want=("c01",))
    return [f"{c}: {d}" for c, d in res["errs"]]
