#!/bin/bash
# usage: tools/sweep_seeded.sh [name ...]   (default: every /verif/seeded/*)
# For each seeded change: apply its patch to a scratch worktree of /repo's HEAD, run the checks named in
# meta.json (quick tier) against it through NESSAI_REPO, record which checks report it, remove the worktree.
cd /verif
NAMES="$@"; [ -z "$NAMES" ] && NAMES=$(ls seeded)
for N in $NAMES; do
  D=/verif/seeded/$N
  [ -f $D/patch.diff ] || continue
  WT=/tmp/wt/sweep-$N
  git -C /repo worktree add -q --detach $WT HEAD || continue
  if ! git -C $WT apply $D/patch.diff 2>/dev/null; then echo "$N: patch does not apply to HEAD"; git -C /repo worktree remove --force $WT; continue; fi
  CHECKS=$(/venv/bin/python -c "import json,sys; print(' '.join(json.load(open('$D/meta.json')).get('checks_to_run', [])))" 2>/dev/null)
  DET=""
  for C in $CHECKS; do
    NESSAI_REPO=$WT VERIF_EVIDENCE_DIR=/tmp/wt/ev-$N VERIF_REPLAY_DIR=/tmp/wt/rp-$N timeout 1800 ./check $C --tier quick > /tmp/wt/sweep-$N-$C.log 2>&1; RC=$?
    K=$(grep -m1 '^  key=' /tmp/wt/sweep-$N-$C.log | cut -c1-160)
    echo "$N: check $C exit=$RC $K"
    [ $RC = 1 ] && DET="$DET $C"
    [ $RC = 2 ] && tail -3 /tmp/wt/sweep-$N-$C.log
    rm -f /tmp/wt/sweep-$N-$C.log
  done
  echo "$N: DETECTED_BY:$DET"
  rm -rf /tmp/wt/ev-$N /tmp/wt/rp-$N
  git -C /repo worktree remove --force $WT
done
