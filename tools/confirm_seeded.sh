#!/bin/bash
# usage: tools/confirm_seeded.sh <worktree> <outdir> <seeded-name> <property> [checks...]
# 1. confirms in the scratch worktree: suite still passes with the change, demo fails with / passes without
# 2. stores patch, demo, notes under /verif/seeded/<name>/
# 3. applies the patch to /repo, runs the given checks (quick), reverts /repo
set -u
WT=$1; OUT=$2; NAME=$3; PROP=$4; shift 4
DEST=/verif/seeded/$NAME
mkdir -p $DEST
cp $OUT/patch.diff $OUT/demo.py $DEST/ 2>/dev/null
cp $OUT/notes.md $DEST/agent_notes.md 2>/dev/null
LOG=$DEST/confirm.log
: > $LOG
cd $WT || exit 2
# the agent's saved patch is the source of truth; make the worktree carry exactly that change
git checkout -q -- . && git apply $OUT/patch.diff || { echo "agent patch does not apply" | tee -a $LOG; exit 2; }
( git diff > $DEST/patch.diff )
echo "== pytest with change" >> $LOG
/venv/bin/python -m pytest -q -p no:cacheprovider --timeout=900 --continue-on-collection-errors -q -rf 2>&1 | grep -E "^(FAILED|ERROR)" > $DEST/.failed.txt
cat $DEST/.failed.txt >> $LOG
NF=$(grep -vc "test_corner_plot_w_include_and_truths" $DEST/.failed.txt)
echo "unexpected failures: $NF" >> $LOG
echo "== demo with change" >> $LOG
timeout 600 /venv/bin/python $DEST/demo.py > $DEST/.demo_with.txt 2>&1; RC1=$?
tail -5 $DEST/.demo_with.txt >> $LOG; echo "exit=$RC1" >> $LOG
# (git stash is shared between worktrees of one repository: revert with the patch itself)
git apply -R $DEST/patch.diff
echo "== demo without change" >> $LOG
timeout 600 /venv/bin/python $DEST/demo.py > $DEST/.demo_without.txt 2>&1; RC0=$?
tail -3 $DEST/.demo_without.txt >> $LOG; echo "exit=$RC0" >> $LOG
git apply $DEST/patch.diff
rm -f $DEST/.failed.txt $DEST/.demo_with.txt $DEST/.demo_without.txt
echo "SUMMARY name=$NAME prop=$PROP unexpected_test_failures=$NF demo_with=$RC1 demo_without=$RC0" | tee -a $LOG
if [ "$NF" != "0" ] || [ "$RC1" = "0" ] || [ "$RC0" != "0" ]; then echo "NOT CONFIRMED" | tee -a $LOG; fi
# run checks against the change (the worktree has it applied; checks import nessai from NESSAI_REPO)
DET=""
for C in "$@"; do
  cd /verif && NESSAI_REPO=$WT VERIF_EVIDENCE_DIR=$DEST/.ev timeout 2400 ./check $C --tier quick > $DEST/.check_$C.txt 2>&1; RC=$?
  V=$(grep -c "^VIOLATION" $DEST/.check_$C.txt)
  echo "check $C exit=$RC violations=$V $(grep -m1 '^  key=' $DEST/.check_$C.txt)" | tee -a $LOG
  [ $RC = 1 ] && DET="$DET $C"
  [ $RC = 2 ] && tail -5 $DEST/.check_$C.txt | tee -a $LOG
  rm -f $DEST/.check_$C.txt
done
rm -rf $DEST/.ev
echo "DETECTED_BY:$DET" | tee -a $LOG
