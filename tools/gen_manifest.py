#!/venv/bin/python
"""Regenerate /verif/MANIFEST.json from the table below and validate it."""
import json
import os
import subprocess
import sys

HERE = os.path.dirname(os.path.dirname(os.path.abspath(__file__)))

CHECKS = {
    # id: (level, technique, text, note, design_ref)
    "C04": (
        "model_checking",
        "explicit-state BFS over the real OrderedSamples with a lock-step reference model",
        "All operation sequences (init, threshold, remove, add, finalise) up to the stated depth over batches from a 4-letter logL alphabet, in all four strict x replace_all modes, are executed on the real store; every reached state is compared with a set-based reference model. Exhaustive within the bound, which covers every tie / below / equal / above-threshold pattern.",
        "Thresholds are restricted to values the sampler can produce (logL of a live sample; any alphabet value <= max live in soft mode, thorough). Values outside the alphabet and depths beyond the bound are not covered.",
        "4/C04",
    ),
    "C01": (
        "model_checking",
        "explicit-state BFS over the real consume_sample/populate_live_points driven by a scripted proposal, plus invariant monitors on real runs",
        "Part A: a real NestedSampler (public constructor, scripted proposal) is advanced through every answer word of the proposal (<= 2 rejected answers of 6 kinds, then an accepted answer at every gap / tie / above-max position, pool emptied or not), from every initial population order with interleaved rejected candidates, with a pickle/resume event and finalise in every state, for nlive 2..3 (quick) / 2..5 (thorough); states are rank-compressed live sets (finite, explored to fixpoint); a list model runs in lock step and the C01 oracle is evaluated after every transition. Part B: the same oracle runs after every iteration of complete real runs over a lattice of proposal classes, latent priors, reparameterisations, flow types, shrinkage modes and resume-at-every-checkpoint histories. The real-run part also runs over every valid single option value of the C20 option alphabet (about 160 more configurations); only the monitor's clauses count there, whether such a run completes is C20's business.",
        "Order-isomorphic live sets have isomorphic futures for the C01 observables (only comparisons are applied to logL). nlive > 5 only through part B. Real runs use tiny Gaussian models and flows.",
        "4/C01",
    ),
    "C03": (
        "exploration",
        "bounded-exhaustive configuration lattice x all resume-point subsets, invariant monitor on every iteration and every stored sample",
        "Real importance-sampler runs over the configuration lattice (quick: every single deviation; thorough: full 384-configuration product) and every subset of resume points of the default run; after every iteration, after finalise and after every resume each stored sample of both sets is checked: per-proposal densities re-evaluated from the proposals, mixture weights = fraction drawn per proposal, logQ = log mixture, logW = logU - logQ, unit hypercube, logL = model. The lattice is extended by every valid single INS option value of the C20 option alphabet.",
        "float32 flow densities compared at 1e-4; 4-iteration runs on tiny models.",
        "4/C03",
    ),
    "C05": (
        "exploration",
        "configuration lattice x resume histories with independent (mpmath) recomputation of the estimator from the returned arrays",
        "Completed runs of both samplers over their configuration lattices and resume histories (none, once, every checkpoint, all subsets for the INS default; converged and iteration-capped): logZ, information, sqrt(H/nlive), posterior weights, sample counts, ordering, model fidelity of logL/logP, birth likelihoods, posterior rows and the result dictionary are recomputed from the returned samples only. Both lattices are extended by every valid single option value of the C20 option alphabet (about 240 more configurations).",
        "nessai's documented information recursion (zero until two finite contributions) is the estimator recomputed.",
        "4/C05",
    ),
    "C02": (
        "exploration",
        "bounded-exhaustive enumeration of logL words x live-count schedules against a 50-digit mpmath quadrature",
        "Every non-decreasing logL word over a 5-letter alphabet (ties, leading -inf) up to the stated length, for nlive 1,2,3,5, both shrinkage modes, the default and every per-iteration live-count schedule over {1,2,3}, and 15 affine images (scales 1e-8..1e4, offsets up to +-1e5) is pushed through the incremental integrator, the one-pass compute_weights and an arbitrary-precision evaluation of the documented quadrature; all three must agree, volumes start at 0 and strictly decrease, shifts act exactly.",
        "Lengths beyond the bound only through fixed long sequences (1e3, 2e4); mpmath at 50 digits is the trusted oracle.",
        "4/C02",
    ),
    "C07": (
        "model_checking",
        "BFS over update/reset histories of each reparameterisation configured through the real proposal, with the full point lattice and every RNG answer evaluated in every state",
        "80 (quick) / ~140 (thorough) configurations - every registered general and gravitational-wave reparameterisation name, each option value (rescale bounds, offset, update on/off, inversion split/duplicate on lower/upper/both, pre/post rescaling, angle conventions, with/without radial parameter, scale/shift estimation) over a 10-interval bounds alphabet - are set up through FlowProposal/GWFlowProposal.set_rescaling; update (three fixed batches hugging neither / the lower / the upper bound) and reset events are explored by BFS (depth 2 / 3); in every state the forward map under every edge-detection answer, both compute_radius values and three auxiliary radii, and the inverse map, are evaluated on a lattice containing both bounds, nextafter, 1e-12/1e-9/1e-6 of the range and interior points: round trip, bit-identical non-sampling fields, opposite log-Jacobians, log-Jacobian vs finite-difference Jacobian constant, prime prior = prior/Jacobian up to a constant with the same support; every answer of numpy.random.choice in split inversion for 4-point batches. A built-in configuration that nessai's own invertibility test refuses is a violation.",
        "Folded (boundary-inversion) parameters are exercised on the current data bounds (outside them the fold is not injective and nessai never maps such points forwards); explicit radial parameters start 1e-6 of their range above zero; poles / identified end points of angular parameters are excluded within 1e-5 of the range. uniform-comoving-volume excluded (astropy absent).",
        "4/C07",
    ),
    "C08": (
        "exploration",
        "flow-configuration lattice x weight states x point lattice with a hand-composed torch reference and 2-D quadrature",
        "21 single deviations of the flow configuration x dims {2,4} x {float32,float64} x {fresh, trained, reset_weights, reset_permutations} (thorough adds the type x linear-transform x batch-norm product): inverse(forward(x)) == x, opposite log-determinants, density at generation == density at evaluation, FlowModel's array interface == the torch model composed by hand (incl. latent samples with an alternative latent distribution), and a 401x401 quadrature of the density in 2-D; for FlowProposal (every latent prior x reparameterisation x flow type) the density attached to a generated physical point equals the density of the same point passed forwards (with the latent-prior correction); for the importance proposal the densities returned by draw() equal those recomputed from the samples. Call-size invariance: both proposals evaluate calls of 1 ... 262 145 points and the rows at both ends, the middle and around every round batch boundary are re-evaluated alone and in a small call.",
        "Tolerances by dtype (2e-4 / 1e-9), scaled by the local contraction exp(|log det|/d); comparisons whose amplification x machine epsilon exceeds 1e-3 are undecidable and skipped (untrained batch norm has zero running variance). Quadrature skipped for lars and for degenerate (width < 1e-6) flows.",
        "4/C08",
    ),
    "C09": (
        "exploration",
        "population lattice with the acceptance variate behind an explorer-owned seam (every lattice value), pool monitors on real runs, inverse-CDF check of the radial samplers",
        "For every configuration of the population lattice (latent prior x constant volume x accumulate_weights x truncate_log_q x reparameterisation x pool/draw sizes x uniform/ramp prior, radius options, augmented and clustering proposals, trained and untrained flows) the candidates and densities are captured at the backward-pass seam and populate() is run for every lattice shift k of the acceptance variates; the pool must be exactly the candidates with u < (prior/q)/max (running maximum when accumulating), in order, truncated to the requested size, and every latent draw must lie inside r*fuzz. Every population and every draw of the real-run lattices is monitored (bounds, logP/logL = model, exact size, indices a permutation and handed out once, latent contour) together with the likelihood-call guard. Radial samplers are checked as inverse-CDF maps on the variate lattice; rejection/analytic proposals on three models. The real-run part also runs over every valid single option value of the C20 option alphabet for both samplers.",
        "Decisions within 1e-12 of the acceptance boundary are not decided. Untrained flows are not combined with accumulate_weights/truncate_log_q (degenerate weights, documented max_samples escape).",
        "4/C09",
    ),
    "C10": (
        "exploration",
        "exhaustive grid over batch size, chunk size, pool, vectorisation and return shape, with every completion order of a controllable pool",
        "The full grid n x chunksize x pool kind/size x vectorisable x return shape x function x unit_hypercube x parallelise_prior is run on the real Model.batch_evaluate_* entry points; a controllable in-process pool executes the submitted tasks in every permutation (<=4 tasks) or every rotation and the reversal; values are compared bit for bit with pointwise evaluation, every row must be evaluated exactly once at the mapped physical point and the counter must grow by exactly n. Real fork pools cover a sub-grid.",
        "Bitwise equality relies on an exactly rounded (+,* only) test likelihood. Pools are in-process fakes except for the real-pool sub-grid.",
        "4/C10",
    ),
    "C11": (
        "fault_enumeration",
        "every crash point (incl. byte prefixes of files under construction) of the recorded file-operation log of real checkpoints and weights saves",
        "For 9-11 histories (checkpoint #1/#2/#3 and weights save #1/#2/#3 of real standard and INS runs, with and without keeping the previous checkpoint) the file operations performed by the real code are recorded; every crash point - before each operation, after the last, and every byte prefix on a lattice while a file is open - is materialised as an on-disk image and FlowSampler(resume=True) is run on it: it must succeed, the loaded sampler state must equal the previous or the new checkpoint, the loaded weights the previous or the new file (never torn, never silently random), and one image per distinct loaded class is continued to completion under the C01/C03 monitors and the C05 oracle. Two-crash histories (quick: three checkpoint histories, thorough: all): from every operation-boundary image the run is resumed up to its next checkpoint and that checkpoint's operation-boundary images are enumerated again; each must load the state before or after it, never a fresh start once a checkpoint had completed. Thorough adds a real child process killed with os._exit before every operation boundary. Every weights crash image of the standard sampler is also resumed with the recorded weights file named explicitly (weights_path= / weights_file=) and must load what the plain resume loads.",
        "Process-kill semantics (no power loss). torch.save's internal writes are modelled as byte prefixes of the completed file. Resume never reads the .temp file (asserted), which justifies the prefix lattice for it.",
        "4/C11",
    ),
    "C12": (
        "fault_enumeration",
        "digest comparison at every checkpoint of a configuration lattice and a kill at every likelihood call (plus kill pairs) of short runs",
        "(a) At every checkpoint of 17 (quick) / 34 (thorough) real runs (iteration- and time-triggered, checkpoint_on_training, rejection and flow phases, populated and empty pools, masks as list and ndarray, clustering, uniform_nball, inversion, INS variants with and without saved log_q) the live sampler is digested (iteration, live and nested points, integral state, insertion indices, history, pools, training counters, reparameterisation state, acceptance bookkeeping, weights, evaluation counter), the file just written is resumed into a second object with a fresh model and the digests are compared field by field (INS log_q bitwise when saved, float32 otherwise). (b) A short run of each sampler is killed at every likelihood call and at kill pairs on a lattice, resumed and completed; the C01/C03 monitors and the C05 oracle must hold and the evaluation counter must equal the checkpointed count plus the evaluations after the resume, at every checkpoint of every leg and at the end. The kill runs execute under a virtual clock (nessai's datetime.now() replaced: 1 s per evaluated point, 1e6 s of down time between legs, which also makes time-triggered checkpoints deterministic): the likelihood time and the sampling time at every checkpoint, after every resume and at the end must equal the harness's own ledger exactly - neither reset, nor counted twice, nor including the down time. Kills are also placed right after the j-th checkpoint of a leg; a sampler that was itself restored must again write checkpoints that restore to what it is (every public plain-valued property of the sampler and its proposals is part of the digest). Real processes: killed with os._exit at the k-th likelihood call and resumed by a second interpreter with another hash seed, with the C01/C03 monitors running inside it (quick: a few kill points; thorough: a lattice of 40 per configuration).",
        "Kills are BaseExceptions raised from the user's likelihood. AugmentedFlowProposal excluded (known finding C09/C20).",
        "4/C12",
    ),
    "C13": (
        "fault_enumeration",
        "signal handler invoked before every executed source line of selected iterations (sys.settrace line/opcode events), each followed by resume and validation",
        "For iterations covering the uninformed phase, the first flow iteration with training and population, and ordinary flow iterations (standard sampler) and a complete loop body (importance sampler), plus the initialisation of a fresh run and the finalisation of both samplers (entry to finalise until it returns, including the forced final checkpoint write), the handler FlowSampler installed for SIGTERM/SIGINT/SIGALRM is invoked just before every line event of every nessai frame (loops de-duplicated to first/second/last occurrence; opcode events inside consume_sample, insert_live_point and the integrator in thorough). Oracle: SystemExit with the configured code; the checkpoint left behind resumes; no discarded point recorded or integrated twice, none lost, full live set without duplicates, counts of samples / evidence entries / insertion indices agree; the resumed run completes under the C01/C03 monitors and the C05 oracle; for the INS the last iteration-boundary checkpoint is byte-identical. Exit-code variants (0, 1, 255, not configured = 130) are compared with the code that was requested.",
        "Line-level granularity outside the commit functions. Known findings (17+3 call sites in NestedSampler.consume_sample between removal and insertion, 6 in NestedSampler.finalise) are listed in known_findings.json; any other site is reported.",
        "4/C13",
    ),
    "C14": (
        "exploration",
        "lattice of parallelisation settings executed in separate interpreter processes plus every completion order of a controllable pool (deviation-bounded)",
        "Both samplers x two seeds x parallelisation settings (n_pool 1..4, user-supplied fork pool, chunk sizes 1 / 7 / larger than any batch, parallel prior) run in separate interpreter processes under two PYTHONHASHSEED values and twice within one process; an in-process controllable pool runs each map call under every completion order (deviation 1: one call deviates; deviation 2 in thorough: two calls). Byte digests of nested samples, logZ, posterior weights and the evaluation counter must coincide within a class (everything but the parallelisation settings). A partial reparameterisation of an asymmetric 3-parameter model runs under four hash seeds. Virtual-clock schedules: the time-triggered-checkpoint configuration of each sampler under clock speeds from frozen to 1e6 s per evaluated point - the wall clock may only decide when checkpoints are written, never the result.",
        "Exactly rounded (+,* only) likelihood. Pools of undiscoverable size (documented fallback with a different random stream) are outside the lattice.",
        "4/C14",
    ),
    "C15": (
        "model_checking",
        "exhaustive trajectory words on a scripted proposal and exhaustive criteria x tolerance lattices, each prediction replayed as a real run",
        "Standard sampler: the real nested_sampling_loop (nlive 10) is driven through every trajectory word over a 4-letter alphabet; from the recorded condition sequence the stopping iteration is predicted for every tolerance placed between consecutive recorded values and every cap (none, 1, first, first+-1) and compared with a real re-run; the compared value must equal history['dlogZ'] and lie in the interval spanned by the two conventions of the remaining-evidence estimate recomputed from the samples; on convergence the live points are consumed once and a second call is idempotent. Importance sampler: per configuration one recorded trajectory; every criterion, alias and pair x any/all x tolerance lattice around the recorded values x min/max iteration is predicted and re-run; ESS, evidence change, fractional error and Z_err are recomputed from the samples (mpmath). Real runs of both samplers are re-run and resumed from the final checkpoint (no further evaluations, identical results). One quantity configured twice (name + alias) keeps two tolerances.",
        "'meets' is value <= tolerance for every criterion as documented; tolerance = +inf is excluded (criteria start at +inf). Known finding: capped standard runs are not idempotent (pinned by an existing test).",
        "4/C15",
    ),
    "C16": (
        "exploration",
        "exhaustive weight-vector enumeration with the uniform variates and numpy.random.choice behind explorer-owned seams",
        "For every log-weight vector of length 1..5 over a 6-letter alphabet (incl. -inf, -745, shifts up to 1e5) rejection sampling is run for every lattice value of the uniform variates (constant, one-deviant and full joint lattices), so 'kept with probability w/max w' is decided exactly as 'kept iff u < w/max w'; for multinomial resampling the arguments handed to numpy.random.choice (population, size=int(ESS) or n, p=w/sum w, replace) are checked and every scripted answer must come back unchanged. ESS bounds and shift invariance are checked on the same vectors. Every rejection case is repeated under another library-wide eps and must decide identically.",
        "numpy.random.choice's own sampling is trusted; decisions within 8 ulp of the acceptance boundary are not decided.",
        "4/C16",
    ),
    "C17": (
        "exploration",
        "exhaustive enumeration of live sets, weight words and clamp settings on the real threshold methods",
        "Phase A runs both real threshold methods on every tie pattern x every logW word over {-inf,-5,-1,0} x all method settings and compares the weighted quantile with an independent Harrell-Davis implementation (mpmath) and scipy's hdquantiles; phase B runs the real determine_log_likelihood_threshold for every (size, own index, method) class over the complete lattice of min_samples, min_remove, nlive, draw_constant and max_samples; the full product is run for sizes <= 3 to validate the reduction. Real runs of the INS lattice (incl. zero-weight samples with finite likelihood under an active clamp) are monitored: every proposal is trained on at least min_samples samples.",
        "min_remove <= size-1 and caps that keep the removal count inside the live set (outside that no live sample can satisfy the constraints). Counts are on positions of the sorted live set.",
        "4/C17",
    ),
    "C18": (
        "model_checking",
        "explicit-state BFS over add/reset histories of the real extra-field registry with a conversion lattice evaluated in every state",
        "Every history of registering / re-registering / resetting extra fields up to the stated depth is replayed on the real registry in lock step with a list model; in every reached state the complete conversion lattice (names of length 1..20 incl. non-ASCII, 0/1/3 points, a 9-value float alphabet incl. NaN, +-inf, -0.0 and denormals in every cell, with/without non-sampling fields, every conversion function and the zero-copy views) is checked bit for bit.",
        "Reserved field names are not used as parameter names.",
        "4/C18",
    ),
    "C19": (
        "exploration",
        "exhaustive value-type x nesting x format lattice plus real result dictionaries under every extension spelling",
        "Seven finished real runs (both samplers; converged, prior-only, capped, with and without the INS independent set) are saved under all nine spellings of (format, file name, extension argument) and read back with json / h5py; every value type of a 26-letter alphabet (NaN, +-inf, None, numpy scalars incl. longdouble, 0-d / empty / structured arrays, lists of arrays, nested dicts ...) is saved at top level, inside a dict, at depth 2 and inside a list in both formats; config.json is written for 13 keyword sets with classes, functions, lambdas, a live pool, torch dtypes, arrays and non-finite numbers and read back with the standard reader. Comparison is field by field under a type-aware equality. Extended-precision scalars and arrays are compared exactly for HDF5.",
        "None inside a list has no HDF5 representation and does not occur in results (excluded for HDF5 only).",
        "4/C19",
    ),
    "C20": (
        "exploration",
        "deviation-bounded option lattice (every value alone; pairwise covering array) with draw-count and wall-clock bounds",
        "Every value of every option of the documented alphabet (65 standard-sampler options, 37 INS options, incl. one deliberately invalid value per option) is run on its own on tiny well-posed models (thorough: two models, two seeds, plus a greedy pairwise covering array over the valid values). Each run is classified: rejected before the first live point is drawn, completed and passing the C05 oracle, failing during or after sampling, population loop exceeding 1000x its nominal number of latent draws, or exceeding the 120 s wall-clock backstop. The deprecated flow_config layouts are part of the alphabet, and every completed single-option run is repeated with a kill at its first checkpoint and a resume with the same keyword arguments.",
        "Known findings: INS train_final_flow, bootstrap, redraw_samples (all variants) and late detection of an unknown INS flow type.",
        "4/C20",
    ),
}

NOT_APPLICABLE = [
    {
        "property_id": "C06",
        "reason": "distributional claim over seeds decided by statistical thresholds; no bounded enumeration of executions decides it (a different family). Its deterministic ingredients are decided by C01, C02, C08, C09, C16.",
    },
]

ENGINES = [
    {"name": "E1/E2 explorer", "path": "mc/explore.py", "serves_properties": ["C01", "C04", "C07", "C18"], "kind_free_text": "level-synchronous explicit-state BFS over real transition functions (history replay, canonical hashing, lock-step reference model); deviation-bounded choice-tree DFS"},
    {"name": "real-run driver and monitors", "path": "mc/runs.py", "serves_properties": ["C01", "C03", "C05", "C11", "C12", "C13", "C14", "C15", "C19", "C20"], "kind_free_text": "tiny configurations of both samplers, kill-at-checkpoint resume histories, invariant monitors (mc/monitors.py), independent result oracles"},
    {"name": "E3 fault-enumerating file system", "path": "mc/faultfs.py", "serves_properties": ["C11"], "kind_free_text": "records exists/move/open/write/close/torch.save of the real code and enumerates every crash image incl. byte prefixes"},
    {"name": "E4 interruption injector", "path": "mc/interrupt.py", "serves_properties": ["C13"], "kind_free_text": "sys.settrace line/opcode events on nessai frames inside a window of the sampling loop; fires the installed signal handler at a chosen event; site de-duplication"},
    {"name": "E6 lattice RNG seams", "path": "mc/rng.py", "serves_properties": ["C07", "C09", "C16"], "kind_free_text": "numpy.random.rand / choice / uniform replaced at named nessai call sites by explorer-owned lattice values"},
    {"name": "runner", "path": "mc/core.py", "serves_properties": [], "kind_free_text": "context, 16-process fork pool, evidence writer with schema validation, known-finding matcher, replay files"},
]


def main():
    props = [json.loads(l)["id"] for l in open(os.path.join(HERE, "properties.jsonl"))]
    checks = []
    for pid in props:
        if pid not in CHECKS:
            continue
        level, tech, text, note, ref = CHECKS[pid]
        checks.append(
            {
                "property_id": pid,
                "quick_cmd": f"./check {pid} --tier quick",
                "thorough_cmd": f"./check {pid} --tier thorough",
                "evidence_file": f"/verif/evidence/{pid}.json",
                "replay_cmd_template": f"./check {pid} --replay {{path}}",
                "engine": "mc/explore.py + checks/%s.py" % pid.lower(),
                "level_claimed": {"category": level, "text": text, "design_ref": f"DESIGN.md section {ref}"},
                "level_note": note,
                "technique": tech,
            }
        )
    na = list(NOT_APPLICABLE)
    claimed = set(CHECKS)
    for pid in props:
        if pid not in claimed and pid not in {x["property_id"] for x in na}:
            na.append({"property_id": pid, "reason": "not claimed yet: check under construction (see DESIGN.md section 9)"})
    for e in ENGINES:
        if not e["serves_properties"]:
            e["serves_properties"] = sorted(claimed)
    m = {
        "version": 1,
        "setup_cmd": "/venv/bin/python -c \"import nessai, numpy, torch, mpmath, networkx\" && chmod +x /verif/check",
        "hooks": {
            "guard": "NESSAI_VERIF",
            "enable": "no source hooks: all instrumentation is applied from the harness process (monkeypatching, sys.settrace, subclassing); checks export NESSAI_VERIF=1 for uniformity",
            "baseline_off_cmd": "cd /repo && /venv/bin/python -m pytest -ra -q -p no:cacheprovider --timeout=900 --continue-on-collection-errors",
            "source_commits": [],
            "add_only": True,
        },
        "engines": ENGINES,
        "checks": checks,
        "not_applicable": na,
        "notes": "All checks run /venv/bin/python against the editable install of /repo (no build step). Genuine defects repaired by 'fix:' commits and unrepaired known findings are listed in /verif/known_findings.json and DESIGN.md section 6.",
    }
    path = os.path.join(HERE, "MANIFEST.json")
    with open(path, "w") as f:
        json.dump(m, f, indent=1)
    code = "import json,sys,jsonschema;jsonschema.validate(json.load(open(sys.argv[1])),json.load(open(sys.argv[2])))"
    r = subprocess.run(["python3-vt", "-c", code, path, "/root/.vp/MANIFEST.schema.json"])
    print("MANIFEST valid" if r.returncode == 0 else "MANIFEST INVALID", len(checks), "checks")
    return r.returncode


if __name__ == "__main__":
    sys.exit(main())
