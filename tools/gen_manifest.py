#!/venv/bin/python
"""Regenerate /verif/MANIFEST.json from the table below and validate it."""
import json
import os
import subprocess
import sys

HERE = os.path.dirname(os.path.dirname(os.path.abspath(__file__)))

CHECKS = {
    # id: (level, technique, text, note, design_ref)
    "C04": (
        "model_checking",
        "explicit-state BFS over the real OrderedSamples with a lock-step reference model",
        "All operation sequences (init, threshold, remove, add, finalise) up to the stated depth over batches from a 4-letter logL alphabet, in all four strict x replace_all modes, are executed on the real store; every reached state is compared with a set-based reference model. Exhaustive within the bound, which covers every tie / below / equal / above-threshold pattern.",
        "Thresholds are restricted to values the sampler can produce (logL of a live sample; any alphabet value <= max live in soft mode, thorough). Values outside the alphabet and depths beyond the bound are not covered.",
        "4/C04",
    ),
}

NOT_APPLICABLE = [
    {
        "property_id": "C06",
        "reason": "distributional claim over seeds decided by statistical thresholds; no bounded enumeration of executions decides it (a different family). Its deterministic ingredients are decided by C01, C02, C08, C09, C16.",
    },
]

ENGINES = [
    {"name": "E1/E2 explorer", "path": "mc/explore.py", "serves_properties": ["C04"], "kind_free_text": "level-synchronous explicit-state BFS over real transition functions (history replay, canonical hashing, lock-step reference model); deviation-bounded choice-tree DFS"},
    {"name": "runner", "path": "mc/core.py", "serves_properties": [], "kind_free_text": "context, 16-process fork pool, evidence writer with schema validation, known-finding matcher, replay files"},
]


def main():
    props = [json.loads(l)["id"] for l in open(os.path.join(HERE, "properties.jsonl"))]
    checks = []
    for pid in props:
        if pid not in CHECKS:
            continue
        level, tech, text, note, ref = CHECKS[pid]
        checks.append(
            {
                "property_id": pid,
                "quick_cmd": f"./check {pid} --tier quick",
                "thorough_cmd": f"./check {pid} --tier thorough",
                "evidence_file": f"/verif/evidence/{pid}.json",
                "replay_cmd_template": f"./check {pid} --replay {{path}}",
                "engine": "mc/explore.py + checks/%s.py" % pid.lower(),
                "level_claimed": {"category": level, "text": text, "design_ref": f"DESIGN.md section {ref}"},
                "level_note": note,
                "technique": tech,
            }
        )
    na = list(NOT_APPLICABLE)
    claimed = set(CHECKS)
    for pid in props:
        if pid not in claimed and pid not in {x["property_id"] for x in na}:
            na.append({"property_id": pid, "reason": "not claimed yet: check under construction (see DESIGN.md section 9)"})
    for e in ENGINES:
        if not e["serves_properties"]:
            e["serves_properties"] = sorted(claimed)
    m = {
        "version": 1,
        "setup_cmd": "/venv/bin/python -c \"import nessai, numpy, torch, mpmath, networkx\" && chmod +x /verif/check",
        "hooks": {
            "guard": "NESSAI_VERIF",
            "enable": "no source hooks: all instrumentation is applied from the harness process (monkeypatching, sys.settrace, subclassing); checks export NESSAI_VERIF=1 for uniformity",
            "baseline_off_cmd": "cd /repo && /venv/bin/python -m pytest -ra -q -p no:cacheprovider --timeout=900 --continue-on-collection-errors",
            "source_commits": [],
            "add_only": True,
        },
        "engines": ENGINES,
        "checks": checks,
        "not_applicable": na,
        "notes": "All checks run /venv/bin/python against the editable install of /repo (no build step). Genuine defects repaired by 'fix:' commits and unrepaired known findings are listed in /verif/known_findings.json and DESIGN.md section 6.",
    }
    path = os.path.join(HERE, "MANIFEST.json")
    with open(path, "w") as f:
        json.dump(m, f, indent=1)
    code = "import json,sys,jsonschema;jsonschema.validate(json.load(open(sys.argv[1])),json.load(open(sys.argv[2])))"
    r = subprocess.run(["python3-vt", "-c", code, path, "/root/.vp/MANIFEST.schema.json"])
    print("MANIFEST valid" if r.returncode == 0 else "MANIFEST INVALID", len(checks), "checks")
    return r.returncode


if __name__ == "__main__":
    sys.exit(main())
